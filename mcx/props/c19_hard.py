"""C19 hardening pass - families for input classes that are legal under the quantifier of C19 but were not enumerated by
mcx/props/c19.py (see notes/C19.md, "Hardening pass").  They use the accounting / tolerance helpers of c19.py and are
dispatched by c19.case_fn.

  dbx    db/dbm/idb/idbm at extreme magnitudes: every decade of the double range outside the 30 central ones, denormals, the
         smallest / largest normal numbers, python integers 2^62 .. 2^64-1 (larger ones only recorded), dB values up to +-3000; x = 0 only recorded
  gausi  gaus on INTEGER sample grids (every numpy integer type, python-int lists and scalars, integer mu / std)
  spell  str2array: numpy's own print form of int and float arrays (strict), other spellings of the same text that have one
         reading only (padding, repeated / mixed separators, '+' signs, '3.' / '.5'; value-or-ValueError), python numerals
         outside the grammar (exponent, '_', inf, nan, 0x..: ValueError), numpy spellings of the dtype argument
  sweep  one shared, writable sample array used for a whole parameter sweep of every function
"""
from __future__ import annotations

import itertools
import warnings

import numpy as np

from mcx.props import c19 as B
from mcx.props.c19 import Acc, call, arr_key, EPS

TINY = 2.2250738585072014e-308          # smallest normal double
DENORM = 5e-324                         # smallest denormal
FMAX = 1.7976931348623157e308


# ===================================================================== db family at the ends of the number range
XDECADES = list(range(-323, -15)) + list(range(15, 309))
XD_STEP = 28
XDB = [k / 2 for k in range(601, 6001)]            # 300.5 ... 3000 dB, both signs
XDB_STEP = 675
BIGINTS = [2 ** 62, 2 ** 63 - 1, 2 ** 63, 2 ** 64 - 1, 2 ** 64, 2 ** 64 + 1, 10 ** 20, 10 ** 30, 10 ** 100, 10 ** 300]
HOM_Y = [1e-3, 0.5, 2.0, 3.14159, 1e3]


def _xvals(lo, hi):
    xs = []
    for e in XDECADES[lo:hi]:
        for m in B.MANT:
            x = float(f'{m}e{e}')
            if 0 < x < float('inf'):
                xs.append(x)
    if lo == 0:
        xs = [DENORM, 2 * DENORM, 1e-320, float(np.nextafter(TINY, 0)), TINY, float(np.nextafter(TINY, 1))] + xs
    if hi >= len(XDECADES):
        xs += [float(np.nextafter(FMAX, 0)), FMAX]
    return sorted(set(xs))


def fam_dbx(case):
    from opticomlib.utils import db, dbm, idb, idbm
    A = Acc('dbx')
    mode = case[1]
    K = ':extreme'
    if mode == 'x':
        xs = _xvals(case[2], case[3])
        arr = np.array(xs)
        forms = [(f'float {x!r}', x, np.float64(x)) for x in xs] + [(f'np.float64 {x!r}', np.float64(x), np.float64(x)) for x in xs]
        forms += [('array', arr.copy(), arr), ('list', list(xs), arr), ('array2d', np.array([xs, xs[::-1]]), np.array([xs, xs[::-1]]))]
        for name, obj, ref in forms:
            snap = B._snap(obj)
            st, a = call(db, obj)
            st2, b = call(dbm, obj)
            if st == 'exc' or st2 == 'exc':
                A.v(f'db:raises{K}', f'db/dbm({name}) raised {(a if st == "exc" else b)!r}')
                continue
            A.item(('db', name), arr_key(a))
            A.item(('dbm', name), arr_key(b))
            a, b = np.asarray(a, dtype=float), np.asarray(b, dtype=float)
            if a.shape != ref.shape or b.shape != ref.shape:
                A.v(f'db:shape{K}', f'db({name}) has shape {a.shape}, input shape {ref.shape}')
                continue
            if not np.all(np.isfinite(a)):
                A.v(f'db:not-finite{K}', f'db({name}) = {a!r} for positive finite x')
            if not B._abs_ok(b, a + 30, B.at_db(a, EPS, B.AT_HOM)):
                j = int(np.argmax(~(np.abs(b - (a + 30)) <= B.at_db(a, EPS, B.AT_HOM))))
                A.v(f'dbm:dbm(x)!=db(x)+30{K}', f'x = {ref.ravel()[j]!r} ({name}): dbm = {b.ravel()[j]!r}, db + 30 = {a.ravel()[j] + 30!r}')
            for y, inv, key in ((a, idb, 'db:idb(db(x))!=x'), (b, idbm, 'dbm:idbm(dbm(x))!=x')):
                st, z = call(inv, y if np.ndim(obj) else float(y))
                if st == 'exc':
                    A.v(f'{inv.__name__}:raises{K}', f'{inv.__name__}({y!r}) raised {z!r}')
                    continue
                z = np.asarray(z, dtype=float)
                # judged up to 1e308: in the last 0.8 decade below the largest double the rounding of the exponent alone can
                # carry the inverse over the top; denormals: +- 4 spacings (their relative precision is not 2^-52)
                ok = (np.abs(z - ref) <= B.rt_inv(ref, EPS) * ref + 4 * DENORM) | (ref > 1e308)
                if z.shape != ref.shape or not np.all(ok):
                    j = int(np.argmax(~ok)) if z.shape == ref.shape else 0
                    A.v(key + K, f'x = {ref.ravel()[j]!r} ({name}): {inv.__name__}({key.split(":")[0]}(x)) = {z.ravel()[j] if z.shape == ref.shape else z!r}')
            # negative -> ValueError, however small
            for fn in (db, dbm):
                nobj = B._neg(obj)
                st, y = call(fn, nobj)
                A.item((fn.__name__, 'neg', name), ('exc', type(y).__name__) if st == 'exc' else arr_key(y))
                if st == 'ok':
                    A.v(f'{fn.__name__}:negative-accepted{K}', f'{fn.__name__}({str(nobj)[:80]}) returned {y!r}, ValueError required')
                elif not isinstance(y, ValueError):
                    A.v(f'{fn.__name__}:negative-raises-{type(y).__name__}{K}', f'{fn.__name__}({str(nobj)[:80]}) raised {y!r}, ValueError required')
            if B._snap(obj) != snap:
                A.v(f'db:input-modified{K}', f'db/dbm changed their argument ({name})')
        # db(x y) = db(x) + db(y) wherever x, y and x y are normal numbers
        for y in HOM_Y:
            with np.errstate(all='ignore'):
                xy = arr * y
            sel = (arr >= TINY) & (xy >= TINY) & np.isfinite(xy)
            if not sel.any():
                continue
            s1, dxy = call(db, xy[sel])
            s2, dx = call(db, arr[sel])
            s3, dy = call(db, y)
            if 'exc' in (s1, s2, s3):
                A.v(f'db:raises{K}', f'db raised on positives (y = {y})')
                continue
            A.item(('hom', y, case[2]), arr_key(dxy))
            bad = ~(np.abs(np.asarray(dxy) - (np.asarray(dx) + float(dy))) <= B.at_db(dxy, EPS, B.AT_HOM))
            if bad.any():
                j = int(np.argmax(bad))
                A.v(f'db:db(x*y)!=db(x)+db(y){K}', f'x={arr[sel][j]!r} y={y!r}: db(x*y)={dxy[j]!r}, db(x)+db(y)={dx[j] + float(dy)!r}')
    elif mode == 'zero':
        # x = 0 is not "x > 0": nothing is asserted (the library returns -inf), the outcome is only recorded
        for obj in (0, 0.0, -0.0, [0.0, 1.0], np.array([0.0]), np.array([0]), np.array([0, 1], dtype=np.uint8), False):
            for fn in (db, dbm):
                st, y = call(fn, obj)
                A.item((fn.__name__, 'zero', repr(obj)), ('exc', type(y).__name__) if st == 'exc' else arr_key(y), nontrivial=False)
                A.stat('x=0(not judged)')
    elif mode == 'd':
        ds = XDB[case[2]:case[3]]
        ds = ds + [-d for d in ds]
        arr = np.array(ds)
        forms = [(f'float {d!r}', d, np.float64(d)) for d in ds] + [(f'int {int(d)}', int(d), np.float64(d)) for d in ds if float(d).is_integer()]
        forms += [('array', arr.copy(), arr), ('list', list(ds), arr)]
        for name, obj, ref in forms:
            snap = B._snap(obj)
            for inv, fwd, key in ((idb, db, 'idb:db(idb(d))!=d'), (idbm, dbm, 'idbm:dbm(idbm(d))!=d')):
                st, y = call(inv, obj)
                if st == 'exc':
                    A.v(f'{inv.__name__}:raises{K}', f'{inv.__name__}({name}) raised {y!r}')
                    continue
                st, z = call(fwd, y)
                if st == 'exc':
                    A.v(f'{fwd.__name__}:raises{K}', f'{fwd.__name__}({inv.__name__}({name})) raised {z!r}')
                    continue
                A.item((inv.__name__, name), arr_key(y))
                z = np.asarray(z, dtype=float)
                ok = np.abs(z - ref) <= B.at_db(ref, EPS, B.AT_DB) if z.shape == ref.shape else np.array(False)
                if not np.all(ok):
                    j = int(np.argmax(~ok)) if z.shape == ref.shape else 0
                    A.v(key + K, f'd = {ref.ravel()[j]!r} ({name}): {fwd.__name__}({inv.__name__}(d)) = {z.ravel()[j] if z.shape == ref.shape else z!r}')
            if B._snap(obj) != snap:
                A.v(f'idb:input-modified{K}', f'idb/idbm changed their argument ({name})')
    else:   # python integers up to 2^64 - 1 (numpy holds them as int64 / uint64) are positive numbers like any other; from 2^64 on
        #         numpy makes an object array and db raises an accidental TypeError: outside the statement by the coordinator's
        #         policy on extreme integers - executed and recorded, not judged (notes/C19.md, proposed_fixes/C19_6.md)
        K = ':big-python-int'
        for v in BIGINTS:
            for name, obj, ref in ((f'int {v}', v, np.float64(v)), (f'[{v}]', [v], np.array([float(v)])), (f'[{v}, 1]', [v, 1], np.array([float(v), 1.0]))):
                if v >= 2 ** 64:
                    for fn in (db, dbm):
                        st, y = call(fn, obj)
                        A.item((fn.__name__, name), ('exc', type(y).__name__) if st == 'exc' else arr_key(np.asarray(y, dtype=float)), nontrivial=False)
                        A.stat('python-int>=2^64(not judged)')
                    continue
                for fwd, inv, key in ((db, idb, 'db:idb(db(x))!=x'), (dbm, idbm, 'dbm:idbm(dbm(x))!=x')):
                    st, y = call(fwd, obj)
                    A.item((fwd.__name__, name), ('exc', type(y).__name__) if st == 'exc' else arr_key(np.asarray(y, dtype=float)))
                    if st == 'exc':
                        A.v(f'{fwd.__name__}:raises-{type(y).__name__}{K}', f'{fwd.__name__}({name}) raised {y!r}')
                        continue
                    st, z = call(inv, y)
                    if st == 'exc' or not B._rel_ok(z, ref, B.rt_inv(ref, EPS)):
                        A.v(key + K, f'{inv.__name__}({fwd.__name__}({name})) = {z!r}, expected {ref!r}')
                for fn in (db, dbm):
                    nobj = B._neg(obj) if not isinstance(obj, list) else [-obj[0]] + obj[1:]
                    st, y = call(fn, nobj)
                    A.item((fn.__name__, 'neg', name), ('exc', type(y).__name__) if st == 'exc' else arr_key(np.asarray(y, dtype=float)))
                    if st == 'ok':
                        A.v(f'{fn.__name__}:negative-accepted{K}', f'{fn.__name__}({nobj!r}) returned {y!r}, ValueError required')
                    elif not isinstance(y, ValueError):
                        A.v(f'{fn.__name__}:negative-raises-{type(y).__name__}{K}', f'{fn.__name__}({nobj!r}) raised {y!r}, ValueError required')
    return A.done()


# ===================================================================== gaus on integer sample grids
# (type, mu, h, r): samples x = mu + h k, |k| <= 12 r, sigma = r h.  The trapezoid rule with step h = sigma/r, r >= 2, has
# aliasing error 2 exp(-2 pi^2 r^2) <= 2e-34 and truncation error erfc(12/sqrt2) = 4e-33; the nodes are integers, hence exact.
GAUSI = [('int8', 0, 1, 2), ('int8', 0, 1, 8), ('int8', 3, 1, 8), ('int8', -5, 1, 4), ('uint8', 120, 1, 8), ('uint8', 100, 1, 4),
         ('int16', 0, 1, 16), ('int16', 0, 100, 16), ('int16', 1000, 100, 16), ('uint16', 30000, 100, 16),
         ('int32', 0, 1, 16), ('int32', 0, 1000, 16), ('int32', 10 ** 6, 1000, 16), ('uint32', 2 * 10 ** 9, 10 ** 5, 16),
         ('int64', 0, 1, 16), ('int64', -7, 3, 4), ('int64', 0, 10 ** 8, 16), ('int64', 193100000000000, 10 ** 8, 16),
         ('uint64', 10 ** 12, 10 ** 8, 16),
         ('int-list', 0, 1, 16), ('int-list', 0, 10 ** 8, 16), ('int-tuple', 5, 2, 8), ('int-scalars', 0, 1, 4), ('int-scalars', 0, 10 ** 8, 16),
         ('np.int64-scalars', 0, 10 ** 8, 16), ('np.int8-scalars', 0, 1, 8), ('bool', 0, 1, 0)]


def fam_gausi(case):
    from opticomlib.utils import gaus
    _, tname, mu, h, r = case
    A = Acc('gausi')
    K = ':int-dtype'
    if tname == 'bool':
        # two samples only: gaus(False) = gaus(0), gaus(True) = gaus(1) (compared with the float calls)
        st, g = call(gaus, np.array([False, True]))
        st2, g0 = call(gaus, np.array([0.0, 1.0]))
        A.item(('bool',), ('exc',) if st == 'exc' else arr_key(g))
        if st == 'exc' or st2 == 'exc' or not np.allclose(np.asarray(g, dtype=float), np.asarray(g0, dtype=float), rtol=8 * EPS, atol=0):
            A.v(f'gaus:differs-from-float-call{K}', f'gaus(array([False, True])) = {g!r}, gaus(array([0., 1.])) = {g0!r}')
        return A.done()
    sd = r * h
    ks = np.arange(-12 * r, 12 * r + 1)
    xs = [mu + h * int(k) for k in ks]
    for ptype in ('int', 'float'):               # mu, std as python ints (the subtraction stays in integers) or as floats
        m_, s_ = (int(mu), int(sd)) if ptype == 'int' else (float(mu), float(sd))
        if tname.endswith('scalars'):
            conv = {'int-scalars': int, 'np.int64-scalars': np.int64, 'np.int8-scalars': np.int8}[tname]
            vals, st = [], 'ok'
            for x in xs:
                st, v = call(gaus, conv(x), m_, s_)
                if st == 'exc' or np.size(v) != 1:
                    st, g = 'exc', (v if st == 'exc' else ValueError(f'gaus({x}) returned {v!r}'))
                    break
                vals.append(float(v))
            if st == 'ok':
                g = np.array(vals)
        else:
            obj = [int(x) for x in xs] if tname == 'int-list' else tuple(int(x) for x in xs) if tname == 'int-tuple' else np.array(xs, dtype=getattr(np, tname))
            snap = B._snap(obj)
            st, g = call(gaus, obj, m_, s_)
            if st == 'ok' and B._snap(obj) != snap:
                A.v(f'gaus:input-modified{K}', f'gaus changed its {tname} argument')
        where = f'gaus({tname} samples {xs[0]}, {xs[1]}, ..., {xs[-1]}; mu={m_!r}, std={s_!r})'
        if st == 'exc':
            A.item((tname, mu, h, r, ptype), ('exc', type(g).__name__))
            A.v(f'gaus:raises-{type(g).__name__}{K}', f'{where} raised {g!r}')
            continue
        g = np.asarray(g, dtype=float)
        A.item((tname, mu, h, r, ptype), arr_key(g))
        if g.shape != (len(xs),):
            A.v(f'gaus:shape{K}', f'{where} has shape {g.shape}')
            continue
        integral = float((np.sum(g) - 0.5 * (g[0] + g[-1])) * h)
        if not abs(integral - 1) <= 1e-12:          # same bound as for float grids: 24 r + 1 <= 385 terms of relative error few eps
            A.v(f'gaus:integral!=1{K}', f'{where}: trapezoid integral over mu +- 12 std = {integral!r}')
        if np.any(g < 0) or not np.all(np.isfinite(g)):
            A.v(f'gaus:negative{K}', f'{where}: negative or non-finite density')
    return A.done()


# ===================================================================== str2array: other spellings of the same text
SPELL_SHAPES = [(1, 1), (1, 2), (1, 3), (2, 1), (2, 2), (3, 2), (2, 3), (1, 6), (3, 3)]
LENIENT = ['lead-space', 'trail-space', 'both-spaces', 'double-space', 'triple-space', 'space-comma-space', 'space-comma', 'double-comma',
           'row:space-semicolon-space', 'row:space-semicolon', 'row:padded', 'plus-signs', 'trailing-dot', 'bare-fraction', 'lead-comma', 'trail-comma', 'tab']
# 'tab': the statement names comma and space, the library documents "whitespace": a TAB between elements either separates them or is
# "another character" (ValueError) - both accepted, a different array is not
# numerals python / numpy would parse but that contain a character outside the grammar of the statement (fixed point only)
LITERALS = ['1e3', '1E3', '1.5e-3', '2e+2', '1e3j', '1.e1', '1_000', '1_0', '0x10', '0b101', '0o7', 'inf', '-inf', '+inf', 'nan', 'Infinity', 'infj',
            'nanj', '1+infj', 'True', 'False', 'None', '1/2', '(1+2j)', '[1 2]', '[1, 2]', '(1, 2)', '1e', 'e1', '1d3', '1f', '1L', '0.5f', '1+2k', '1+2J', '1+2I',
            '1 2 # c', '"1"', "'1'", '1:3', '1|2', '1*2', '1^2', '~1', '1%', '$1', '1=1', '<1>', '{1}', '1&2', '1@2', '1!', '1?', '\\1', '`1`']
NP_DTYPES = [('np.int64', np.int64), ('np.float64', np.float64), ('np.complex128', np.complex128), ('np.bool_', np.bool_), ('np.float32', np.float32),
             ("'float'", 'float'), ('np.dtype(float)', np.dtype(float)), ("'complex'", 'complex'), ('np.int32', np.int32)]


def _np_print(a, sep):
    """numpy's own fixed-point print of the array with the given separator, brackets removed, rows joined later"""
    with np.printoptions(suppress=True, threshold=10 ** 6, linewidth=10 ** 6, floatmode='maxprec', precision=8, sign='-'):
        txt = np.array2string(a, separator=sep)
    rows = []
    for line in txt.split('\n'):
        line = line.strip().rstrip(',').strip()
        while line.startswith('['):
            line = line[1:]
        while line.endswith(']'):
            line = line[:-1]
        rows.append(line)
    return rows


def _variant(name, toks_rows):
    """text of the token matrix in the named spelling, or None where the spelling does not apply"""
    r, c = len(toks_rows), len(toks_rows[0])
    es, rs = ' ', ';'
    rows = [list(t) for t in toks_rows]
    pre = post = ''
    if name == 'lead-space':
        pre = ' '
    elif name == 'trail-space':
        post = ' '
    elif name == 'both-spaces':
        pre, post = '  ', ' '
    elif name == 'double-space':
        es = '  '
    elif name == 'triple-space':
        es = '   '
    elif name == 'space-comma-space':
        es = ' , '
    elif name == 'space-comma':
        es = ' ,'
    elif name == 'double-comma':
        es = ',,'
    elif name == 'row:space-semicolon-space':
        rs = ' ; '
    elif name == 'row:space-semicolon':
        rs = ' ;'
    elif name == 'row:padded':
        rs, pre, post = ';  ', ' ', ' '
    elif name == 'plus-signs':
        rows = [[t if t.startswith('-') else '+' + t for t in row] for row in rows]
    elif name == 'trailing-dot':
        new = [[t[:-1] if (t.endswith('.0') and t.count('.') == 1 and not t[-3:-2] in '+-' and 'j' not in t and 'i' not in t) else t for t in row] for row in rows]
        if new == rows:
            return None
        rows = new
    elif name == 'bare-fraction':
        new = [[('-' + t[2:] if t.startswith('-0.') else t[1:] if t.startswith('0.') else t) if ('j' not in t and 'i' not in t) else t for t in row] for row in rows]
        if new == rows:
            return None
        rows = new
    elif name == 'tab':
        es = '\t'
    elif name == 'lead-comma':
        pre, es = ',', ','
    elif name == 'trail-comma':
        post, es = ',', ','
    if name.startswith('row:') and r == 1:
        return None
    if name in ('double-space', 'triple-space', 'space-comma-space', 'space-comma', 'double-comma', 'tab') and c == 1:
        return None
    if name in ('lead-comma', 'trail-comma') and r > 1:
        return None
    return pre + rs.join(es.join(row) for row in rows) + post


def fam_spell(case):
    """('spell', 'print' | 'lenient', alphabet, r, c) | ('spell', 'literal', lo, hi) | ('spell', 'dtype')"""
    from opticomlib.utils import str2array
    A = Acc('str2array')
    mode = case[1]
    if mode in ('print', 'lenient'):
        _, _, alph, r, c = case
        n = r * c
        cyc = [(i // c + i % c) % 4 for i in range(n)]
        idxs = list(dict.fromkeys([tuple([0] * n)] + list(B.s2a_dev_arrays(n, cyc, 1 if n > 3 else 2))))
        units = ('i', 'j') if alph == 'complex' else ('',)
        for idx in idxs:
            vals = [B.S2A_VAL[alph][i] for i in idx]
            seen = set()
            if mode == 'print':
                a = np.array(vals, dtype={'int': np.int64, 'float': float}[alph]).reshape((c,) if r == 1 else (r, c))
                for sep in (' ', ',', ', '):
                    rows = _np_print(a, sep)
                    for rs in ((';', '; ', ' ;') if r > 1 else (';',)):
                        text = rs.join(rows)
                        if text in seen:
                            continue
                        seen.add(text)
                        B.s2a_one(A, alph + '-numpy-print', text, B.s2a_expect(text, vals, r, c))
                        A.stat('texts')
            else:
                for u in units:
                    toks = [B.S2A_TOK[alph][i].format(u=u) for i in idx]
                    rows = [toks[k * c:(k + 1) * c] for k in range(r)]
                    for name in LENIENT:
                        text = _variant(name, rows)
                        if text is None or text in seen:
                            continue
                        seen.add(text)
                        B.s2a_one(A, alph + '-spelling', text, B.s2a_expect(text, vals, r, c), lenient=True)
                        A.stat('texts')
    elif mode == 'long':
        # lengths (checklist 2): long rows / many rows, cyclic pattern shifted by `k`, every separator style and dtype
        _, _, alph, r, c = case
        units = ('i', 'j') if alph == 'complex' else ('',)
        for k in range(4):
            idx = [(i // c + i % c + k) % 4 for i in range(r * c)]
            vals = [B.S2A_VAL[alph][i] for i in idx]
            for u in units:
                toks = [B.S2A_TOK[alph][i].format(u=u) for i in idx]
                rows = [toks[j * c:(j + 1) * c] for j in range(r)]
                for es in B.ELEM_SEPS:
                    for rs in (B.ROW_SEPS if r > 1 else B.ROW_SEPS[:1]):
                        text = rs.join(es.join(row) for row in rows)
                        B.s2a_one(A, alph + '-long', text, B.s2a_expect(text, vals, r, c))
                        A.stat('texts')
    elif mode == 'literal':
        for lit in LITERALS[case[2]:case[3]]:
            for text in (lit, f'1 {lit}', f'{lit} 2', f'1,{lit},2', f'1 2; 3 {lit}', f'0.5 {lit}', f'1+2j {lit}'):
                for dt in B.DTYPES:
                    st, a = call(str2array, text) if dt is None else call(str2array, text, dtype=dt)
                    A.item(('literal', text, B.DTNAME[dt]), ('exc', type(a).__name__) if st == 'exc' else arr_key(a))
                    where = f'str2array({text!r}' + ('' if dt is None else f', dtype={B.DTNAME[dt]}') + ')'
                    if st == 'ok':
                        A.v('str2array:invalid-char-accepted:python-numeral', f'{where} returned {np.asarray(a).tolist()!r}; {lit!r} is not in the fixed-point grammar: ValueError required')
                    elif not isinstance(a, ValueError):
                        A.v(f'str2array:invalid-char-raises-{type(a).__name__}:python-numeral', f'{where} raised {a!r}: ValueError required')
    else:
        # numpy spellings of the dtype argument (the library documents bool, int, float, complex only): a refusal is accepted,
        # a returned array must carry that dtype and the values of the text; 0/1-only texts are not used (whether np.float64
        # counts as "a numeric dtype is given" for them is not stated)
        texts = [('3 -2 17 5', [3, -2, 17, 5], 1, 4), ('1.5, -0.25; 3.0, 10.125', [1.5, -0.25, 3.0, 10.125], 2, 2), ('1+2j 0.5j 3', [1 + 2j, 0.5j, 3], 1, 3),
                 ('2; 3; 10', [2, 3, 10], 3, 1)]
        for text, vals, r, c in texts + [('1011', None, 1, 4), ('10 01; 11 00', None, 2, 2)]:
            for dt in (bool, int, float, complex):        # the dtype passed positionally = passed by keyword
                s1, a1 = call(str2array, text, dt)
                s2, a2 = call(str2array, text, dtype=dt)
                A.item(('dtype-positional', text, B.DTNAME[dt]), ('exc', type(a1).__name__) if s1 == 'exc' else arr_key(a1))
                if s1 != s2 or (s1 == 'ok' and arr_key(a1) != arr_key(a2)):
                    A.v('str2array:dtype:positional', f'str2array({text!r}, {B.DTNAME[dt]}) = {a1!r} but with dtype= keyword {a2!r}')
            if vals is None:
                continue
            nat = np.array(vals).reshape((c,) if r == 1 else (r, c))
            for dname, dt in NP_DTYPES:
                st, a = call(str2array, text, dtype=dt)
                A.item(('dtype', text, dname), ('exc', type(a).__name__) if st == 'exc' else arr_key(a))
                where = f'str2array({text!r}, dtype={dname})'
                if st == 'exc':
                    if isinstance(a, (TypeError, ValueError)):
                        A.stat('numpy-dtype-spelling-refused(accepted)')
                    else:
                        A.v(f'str2array:raises-{type(a).__name__}:dtype-spelling', f'{where} raised {a!r}')
                    continue
                with warnings.catch_warnings():
                    warnings.simplefilter('ignore')
                    want = nat.astype(dt)
                if not isinstance(a, np.ndarray) or a.dtype != np.dtype(dt):
                    A.v('str2array:dtype:dtype-spelling', f'{where} has dtype {getattr(a, "dtype", type(a))}, explicit dtype not honoured')
                elif a.shape != want.shape:
                    A.v('str2array:shape:dtype-spelling', f'{where} has shape {a.shape}, expected {want.shape}')
                elif np.array_equal(want.astype(complex), nat.astype(complex)) and not np.array_equal(a, want):
                    A.v('str2array:value:dtype-spelling', f'{where} = {a.tolist()!r}, expected {want.tolist()!r}')
    return A.done()


# ===================================================================== one shared sample array, a whole parameter sweep
def fam_sweep(case):
    """('sweep', dtype name): ONE writable sample array is handed to every function for a whole sweep of the other parameters; every
    result must equal the result for a fresh copy of the samples, and the samples must be unchanged at the end."""
    from opticomlib import utils as U
    _, tname = case
    A = Acc('sweep')
    dt = getattr(np, tname)
    base = np.array([1, 2, 3, 5, 8, 13, 21, 34, 55, 89], dtype=dt) if np.dtype(dt).kind in 'iu' else np.array([0.25, 0.5, 0.75, 1, 1.5, 2, 3.5, 8, 20, 50], dtype=dt)
    shared = base.copy()
    calls = [('db', lambda x: U.db(x)), ('dbm', lambda x: U.dbm(x)), ('idb', lambda x: U.idb(x)), ('idbm', lambda x: U.idbm(x)), ('Q', lambda x: U.Q(x))]
    calls += [(f'gaus(mu={mu},std={sd})', (lambda x, mu=mu, sd=sd: U.gaus(x, mu, sd))) for mu in (0, 2, 3.5) for sd in (1, 4, 0.5)]
    calls += [(f'rcos(alpha={al},T={T})', (lambda x, al=al, T=T: U.rcos(x, al, T))) for al in (0, 0.25, 0.5, 1) for T in (1, 0.5, 0.25, 0.125, 2)]
    for rep in range(2):
        for name, f in calls:
            s1, r1 = call(f, shared)
            s2, r2 = call(f, base.copy())
            A.item((name, tname, rep), ('exc', type(r1).__name__) if s1 == 'exc' else arr_key(r1))
            if s1 != s2 or (s1 == 'ok' and arr_key(r1) != arr_key(r2)):
                A.v(f'{name.split("(")[0]}:shared-input:result-depends-on-history', f'{name} on the shared {tname} samples = {r1!r}, on a fresh copy {r2!r}')
            if arr_key(shared) != arr_key(base):
                A.v(f'{name.split("(")[0]}:input-modified', f'{name} changed its {tname} sample array to {shared!r}')
                shared = base.copy()
    return A.done()


FAMILIES = {'dbx': fam_dbx, 'gausi': fam_gausi, 'spell': fam_spell, 'sweep': fam_sweep}


def cases(quick):
    """-> list of (part name, cases)"""
    out = []
    out.append(('db.extreme-magnitudes', [('dbx', 'x', lo, min(lo + XD_STEP, len(XDECADES))) for lo in range(0, len(XDECADES), XD_STEP)] +
                [('dbx', 'd', lo, min(lo + XDB_STEP, len(XDB))) for lo in range(0, len(XDB), XDB_STEP)] + [('dbx', 'int'), ('dbx', 'zero')]))
    out.append(('gaus.integer-grids', [('gausi',) + g for g in GAUSI]))
    sp = []
    for r, c in SPELL_SHAPES:
        for al in ('int', 'float'):
            sp.append(('spell', 'print', al, r, c))
        for al in ('int', 'float', 'complex'):
            sp.append(('spell', 'lenient', al, r, c))
    for r, c in [(1, 13), (1, 97), (1, 127), (1, 1024), (1, 4097), (13, 7), (64, 2), (127, 1), (2, 1025)] if quick else \
            [(1, 13), (1, 97), (1, 127), (1, 1023), (1, 1024), (1, 1025), (1, 4096), (1, 4097), (13, 7), (64, 2), (127, 1), (1024, 1), (2, 1025), (97, 97)]:
        for al in ('int', 'float', 'complex'):
            sp.append(('spell', 'long', al, r, c))
    sp += [('spell', 'literal', lo, lo + 8) for lo in range(0, len(LITERALS), 8)] + [('spell', 'dtype')]
    out.append(('str2array.spellings', sp))
    out.append(('shared-input-sweeps', [('sweep', t) for t in ('float64', 'float32', 'int64', 'int32', 'uint8', 'int8')]))
    return out
