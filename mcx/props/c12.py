"""C12 - PPM encode/decode bijection; HDD/SDD emit valid codewords.

Core (model checking): the FULL nondeterminism tree of `ppm.HDD` - every answer numpy's RNG can
give to every `randint`/`choice` request - explored statelessly on the real function through a
scripted RNG (mcx.core.env.ScriptedRNG, specialised below to scalar decision points), for every
slot pattern of a bounded size; deviation bounded (at most d answers differ from "first candidate")
where the tree is too big.  Around it: exhaustive encoder/decoder words x container forms, SDD
identity on DAC(codeword), SDD argmax on tie-free seeded energies, the ValueError clauses and a
real-RNG conformance run binding the scripted RNG to numpy's generator.
"""
from __future__ import annotations

import itertools
import zlib
from collections import deque

import numpy as np

from mcx.core.env import ScriptedRNG, Unscripted, gv_reset, scripted_rng
from mcx.core.kernel import res

ID = 'C12'
LEVEL = 'model_checking'
NONTRIVIAL = ('HDD: slot patterns with >=1 empty or multi-ON symbol (>=1 RNG decision), counted per distinct (M, pattern); '
              'encoder/decoder: words with >=1 whole symbol, counted per distinct (M, word); SDD: waveforms whose slots '
              'carry >=2 different energies, counted per distinct observation')

ORDERS = [2, 4, 8, 16, 32, 64, 128, 256]
NON_POWERS = [3, 5, 6, 7, 9, 10, 12, 24, 100, 255]


def log2i(M):
    return M.bit_length() - 1


# =========================================================================== reference models
def ref_encode(bits, M):
    """list of 0/1 -> (truncated bits, codeword list): one ON slot per block at the big-endian value"""
    k = log2i(M)
    n = len(bits) // k
    cw = [0] * (n * M)
    for s in range(n):
        v = 0
        for b in bits[s * k:(s + 1) * k]:
            v = 2 * v + int(b)
        cw[s * M + v] = 1
    return list(bits[:n * k]), cw


def syms_to_bits(syms, M):
    k = log2i(M)
    out = []
    for v in syms:
        out += [(v >> (k - 1 - i)) & 1 for i in range(k)]
    return out


def syms_to_pattern(syms, M):
    """syms: tuple of tuples of ON positions -> uint8 slot array"""
    x = np.zeros(len(syms) * M, dtype=np.uint8)
    for i, on in enumerate(syms):
        for p in on:
            x[i * M + p] = 1
    return x


# Separators of the library's string format.  Source: the docstring of `opticomlib.utils.str2array` ("Use comma (,) or
# whitespace ( ) as element separators ...  For binary numbers ... sequence don't need to be separated by commas or spaces
# although it is allowed", special case '1 0 1 10' -> [1,0,1,1,0]) and the docstrings of HDD / binary_sequence, which write
# codewords as '0100 0111 0000'.  Only the blank and the comma are used: other whitespace (tab, newline) matches the
# parser's regular expression but is not removed by it, and ';' starts a new ROW (2-D array) - neither is an accepted
# spelling of a 1-D bit sequence, so neither is asserted.
SEPARATORS = (('space', ' '), ('comma', ','), ('comma+space', ', '), ('2spaces', '  '), ('space+comma', ' ,'))


CORE_SPELLINGS = ('str', 'str+sep:space/element', 'str+sep:comma/element', 'str+sep:comma+space/element', 'str+sep:space/group')


def string_spellings(bits, group=None):
    """every spelling of the 0/1 sequence `bits` in the library's string format: separator-free, each separator between
    all elements, each separator between groups of `group` elements (symbols / bit blocks), and blank-padded variants.
    Pure (no library call): the denoted sequence is `bits` by construction.  Spellings that coincide as strings (e.g. a
    one-element sequence) are listed once, under the simplest name.  '' is not an accepted string form
    (binary_sequence('') raises as well), so an empty sequence has no spelling."""
    s = [str(int(b)) for b in bits]
    if not s:
        return {}
    out = {'str': ''.join(s)}
    have = {out['str']}

    def add(name, text):
        if text not in have:
            have.add(text)
            out[name] = text

    chunks = None
    if group and group > 1 and len(s) > group:
        chunks = [''.join(s[i:i + group]) for i in range(0, len(s), group)]
    for name, sep in SEPARATORS:
        add(f'str+sep:{name}/element', sep.join(s))
        if chunks:
            add(f'str+sep:{name}/group', sep.join(chunks))
    add('str+sep:padded', ' ' + out['str'] + ' ')
    add('str+sep:padded+space/element', ' ' + ' '.join(s) + ' ')
    if chunks:
        add('str+sep:padded+comma+space/group', ' ' + ', '.join(chunks) + ' ')
    return out


def container_forms(bits, with_dtypes=True, group=None, strings='all'):
    """every accepted container type holding the same 0/1 sequence.  `group`: block size of the grouped string
    spellings (M for slot sequences, log2 M for bit sequences); strings: 'all' = every spelling, 'core' = the separator-free
    string + blank / comma / comma+blank between elements + blank between groups (CORE_SPELLINGS), 'plain' = no separators."""
    from opticomlib.typing import binary_sequence
    bits = [int(b) for b in bits]
    f = {}
    sp = string_spellings(bits, group)
    if strings != 'all':
        keep = CORE_SPELLINGS if strings == 'core' else ('str',)
        sp = {k: t for k, t in sp.items() if k in keep}
    f.update(sp)
    f['list'] = list(bits)
    f['tuple'] = tuple(bits)
    f['ndarray:uint8'] = np.array(bits, dtype=np.uint8)
    if with_dtypes:
        f['ndarray:bool'] = np.array(bits, dtype=bool)
        f['ndarray:int64'] = np.array(bits, dtype=np.int64)
        f['ndarray:float64'] = np.array(bits, dtype=np.float64)
    f['binary_sequence'] = binary_sequence(list(bits))
    # the spelling of the library's own docstrings (HDD(binary_sequence('0100 0111 0000'), 4)): object built from a string
    for k in ('str+sep:space/group', 'str+sep:space/element', 'str'):
        if k in sp:
            f[f'binary_sequence(<{k}>)'] = binary_sequence(sp[k])
            break
    return f


def form_family(name):
    """violation-key suffix of a container form: 'str', 'str+sep', 'list', 'ndarray', 'binary_sequence', 'binary_sequence(str)'"""
    if name.startswith('binary_sequence('):
        return 'binary_sequence(str)'
    return name.split(':')[0]


def data_of(y):
    """returned sequence -> (list of ints, type name)"""
    d = getattr(y, 'data', y)
    a = np.asarray(d)
    return a, type(y).__name__


def as_int_list(a):
    return [int(v) for v in np.asarray(a).ravel().tolist()]


# =========================================================================== part 1: encoder / decoder words
def check_encoder_output(bits, M, out, v, tag):
    """oracle of the statement, written out clause by clause"""
    k = log2i(M)
    n = len(bits) // k
    a, tname = data_of(out)
    if tname != 'binary_sequence':
        v.append(('ENC:return-type', f'{tag}: PPM_ENCODER returned {tname}'))
    if a.ndim != 1 or a.size != n * M:
        v.append(('ENC:length', f'{tag}: bits={bits} M={M}: output has {a.size} slots, expected {n}*{M}'))
        return None
    vals = as_int_list(a)
    if any(x not in (0, 1) for x in vals):
        v.append(('ENC:non-binary', f'{tag}: bits={bits} M={M}: output {vals}'))
        return vals
    for s in range(n):
        blk = vals[s * M:(s + 1) * M]
        if sum(blk) != 1:
            v.append(('ENC:not-one-ON-per-block', f'{tag}: bits={bits} M={M}: block {s} = {blk}'))
            return vals
        val = int(''.join(map(str, bits[s * k:(s + 1) * k])), 2)
        if blk.index(1) != val:
            v.append(('ENC:position-not-big-endian',
                      f'{tag}: bits={bits} M={M}: block {s} ON at {blk.index(1)}, big-endian value of '
                      f'{bits[s*k:(s+1)*k]} is {val}'))
            return vals
    return vals


def enc_dec_one(bits, M, v, with_dtypes=True, strings='all'):
    """runs every container form of `bits` through encoder and decoder; returns canonical observation"""
    from opticomlib.ppm import PPM_ENCODER, PPM_DECODER
    trunc, cw = ref_encode(bits, M)
    obs = []
    base = None
    for name, obj in container_forms(bits, with_dtypes, group=log2i(M), strings=strings).items():
        y = PPM_ENCODER(obj, M)
        fam = form_family(name)
        vals = as_int_list(data_of(y)[0])
        if base is None:
            base = vals
            check_encoder_output(bits, M, y, v, f'form={name}')
        elif vals != base:
            v.append((f'ENC:container-forms-differ:{fam}',
                      f'bits={bits} M={M}: form {name} = {obj!r:.200} gives {vals}, first form gives {base}'))
        obs.append(tuple(vals))
    # decoder on the reference codeword (independent of the encoder) in every container form
    dbase = None
    for name, obj in container_forms(cw, with_dtypes, group=M, strings=strings).items():
        z = PPM_DECODER(obj, M)
        fam = form_family(name)
        a, tname = data_of(z)
        vals = as_int_list(a)
        if dbase is None:
            dbase = vals
            if tname != 'binary_sequence':
                v.append(('DEC:return-type', f'PPM_DECODER returned {tname}'))
            if vals != trunc:
                v.append(('DEC:codeword->bits', f'M={M}: PPM_DECODER({cw}) = {vals}, expected big-endian bits {trunc}'))
        elif vals != dbase:
            v.append((f'DEC:container-forms-differ:{fam}',
                      f'codeword={cw} M={M}: form {name} = {obj!r:.200} gives {vals}, first form gives {dbase}'))
        obs.append(tuple(vals))
    # round trip through the real encoder's own output object
    y = PPM_ENCODER(container_forms(bits, False)['ndarray:uint8'], M)
    z = PPM_DECODER(y, M)
    rt = as_int_list(data_of(z)[0])
    if rt != trunc:
        v.append(('DEC:roundtrip', f'bits={bits} M={M}: DEC(ENC(b)) = {rt}, expected b truncated to whole symbols = {trunc}'))
    obs.append(tuple(rt))
    return tuple(obs)


def enc_case(case):
    """case = ('enc', M, L, value, strings): the bit string = L-digit big-endian binary of value; strings = which string
    spellings join the container forms (see container_forms)"""
    _, M, L, value, strings = case
    bits = [(value >> (L - 1 - i)) & 1 for i in range(L)]
    v = Viol()
    obs = enc_dec_one(bits, M, v, strings=strings)
    nt = (M, L, value) if L >= log2i(M) else False
    return res(viol=_dedup(v), obs=(M, L, obs), nontrivial=nt, stats={'enc_words': 1})


def encseq_case(case):
    """case = ('encseq', M, head symbols tuple, tail alphabet tuple, strings): words = head + (t,) for every t"""
    _, M, head, tails, strings = case
    v = Viol()
    obs = []
    for t in tails:
        syms = tuple(head) + (t,)
        obs.append(enc_dec_one(syms_to_bits(syms, M), M, v, with_dtypes=False, strings=strings))
    return res(viol=_dedup(v), obs=(M, head, tuple(obs)), nontrivial=(M, head, tails), stats={'enc_words': len(tails)})


def enclong_case(case):
    """case = ('enclong', M, nbits, kind, seed, strings): long word; kind in zeros/ones/alt/seeded"""
    _, M, nbits, kind, seed, strings = case
    if kind == 'zeros':
        bits = [0] * nbits
    elif kind == 'ones':
        bits = [1] * nbits
    elif kind == 'alt':
        bits = [i % 2 for i in range(nbits)]
    else:
        rs = np.random.RandomState(zlib.crc32(repr(('enclong', M, nbits, kind, seed)).encode()))
        bits = rs.randint(0, 2, nbits).tolist()
    v = Viol()
    obs = enc_dec_one(bits, M, v, with_dtypes=False, strings=strings)
    return res(viol=_dedup(v), obs=(M, nbits, kind, zlib.crc32(repr(obs).encode())), nontrivial=(M, nbits, kind, seed),
               stats={'enc_words': 1})


class Viol(list):
    """violation collector: first message per key; `new(key)` lets the oracle skip formatting repeated keys"""

    def __init__(self):
        super().__init__()
        self.keys = set()

    def new(self, key):
        return key not in self.keys

    def append(self, item):
        if item[0] not in self.keys:
            self.keys.add(item[0])
            super().append(item)


def _dedup(v):
    """first message per key within one case"""
    seen, out = set(), []
    for k, m in v:
        if k not in seen:
            seen.add(k)
            out.append((k, m[:1500]))
    return out


# =========================================================================== part 2: HDD nondeterminism tree
class HarnessLimit(Exception):
    """the scripted RNG was used in a way the tree explorer does not model (never a violation)"""


class TreeRNG(ScriptedRNG):
    """ScriptedRNG specialised to scalar decision points.  Every scalar the library requests from
    `randint`/`choice` is one node of the answer tree; the answer is an INDEX into the candidate
    list, taken from `prefix` and 0 ("first candidate") beyond it.  All decisions are recorded."""

    def __init__(self, prefix=(), values=None):
        super().__init__()
        self.prefix = tuple(prefix)
        self.values = values          # conformance replay: answer by VALUE (recorded from the real RNG)
        self.dec = []                 # (fn, candidates tuple)
        self.answers = []

    def _decide(self, fn, cands):
        i = len(self.dec)
        if len(cands) == 0:
            # numpy raises ValueError for an empty candidate set as well
            raise ValueError(f'{fn}: empty candidate set')
        if self.values is not None:
            if i >= len(self.values):
                raise HarnessLimit('replay script shorter than the request sequence')
            val = self.values[i]
            if val not in cands:
                raise HarnessLimit(f'recorded real answer {val} is not among the candidates {cands[:8]}')
            idx = cands.index(val)
        else:
            idx = self.prefix[i] if i < len(self.prefix) else 0
            if idx >= len(cands):
                raise HarnessLimit(f'answer tree is not deterministic: decision {i} has {len(cands)} candidates, script index {idx}')
        self.dec.append((fn, tuple(cands)))
        self.answers.append(idx)
        self.requests.append({'fn': fn, 'n': len(cands)})
        return idx

    def randint(self, low, high=None, size=None, dtype=int):
        lo, hi = (0, low) if high is None else (low, high)
        if np.ndim(lo) or np.ndim(hi):
            raise HarnessLimit('randint with array bounds')
        cands = list(range(int(lo), int(hi)))
        if size is None:
            return cands[self._decide('randint', cands)]
        n = int(np.prod(size))
        return np.array([cands[self._decide('randint', cands)] for _ in range(n)], dtype=dtype).reshape(size)

    def choice(self, a, size=None, replace=True, p=None):
        arr = np.arange(a) if np.ndim(a) == 0 else np.asarray(a)
        if arr.ndim != 1:
            raise HarnessLimit('choice on a non 1-D population')
        cands = arr.tolist()
        if size is None:
            return arr[self._decide('choice', cands)]
        if not replace:
            raise HarnessLimit('choice(replace=False)')
        n = int(np.prod(size))
        return np.array([arr[self._decide('choice', cands)] for _ in range(n)]).reshape(size)


def call_hdd(x, M, rng):
    """one execution of the real HDD under a scripted RNG.
    returns ('ok', int list, type name) | ('exc', type name, text)"""
    from opticomlib.ppm import HDD
    try:
        with scripted_rng(rng):
            y = HDD(x, M)
    except (HarnessLimit, Unscripted) as e:
        # re-raised from a harness frame on purpose: exit 2 (result not trustworthy), never a VIOLATION
        raise RuntimeError(f'{type(e).__name__}: {e}') from None
    except Exception as e:  # noqa - anything the library raises under some RNG answer is an outcome
        return ('exc', type(e).__name__, str(e)[:200])
    a, tname = data_of(y)
    return ('ok', as_int_list(a), tname)


def sym_kind(on):
    return 'empty' if len(on) == 0 else 'valid' if len(on) == 1 else 'multi-ON'


def hdd_outcome_oracle(M, syms, outcome, how, v):
    """the three HDD clauses of the statement on one outcome"""
    n = len(syms)
    if outcome[0] == 'exc':
        v.append((f'HDD:raises:{outcome[1]}', f'M={M} symbols={syms} {how}: HDD raised {outcome[1]}: {outcome[2]}'))
        return
    vals, tname = outcome[1], outcome[2]
    if tname != 'binary_sequence':
        v.append(('HDD:return-type', f'HDD returned {tname}'))
    if len(vals) != n * M:
        v.append(('HDD:length', f'M={M} symbols={syms} {how}: output has {len(vals)} slots, expected {n*M}'))
        return
    if any(x not in (0, 1) for x in vals):
        v.append(('HDD:non-binary', f'M={M} symbols={syms} {how}: output {vals[:64]}'))
        return
    for i, on in enumerate(syms):
        blk = vals[i * M:(i + 1) * M]
        got = [p for p, b in enumerate(blk) if b]
        kind = sym_kind(on)
        if len(got) != 1:
            if v.new(f'HDD:not-one-ON:{kind}-symbol'):
                v.append((f'HDD:not-one-ON:{kind}-symbol',
                          f'M={M} symbols={syms} {how}: output symbol {i} has ON slots {got} (input ON slots {list(on)})'))
        elif kind == 'valid' and got[0] != on[0]:
            if v.new('HDD:valid-symbol-changed'):
                v.append(('HDD:valid-symbol-changed',
                          f'M={M} symbols={syms} {how}: symbol {i} had exactly one ON slot {on[0]}, output has {got[0]}'))
        elif kind == 'multi-ON' and got[0] not in on:
            if v.new('HDD:kept-slot-was-not-ON'):
                v.append(('HDD:kept-slot-was-not-ON',
                          f'M={M} symbols={syms} {how}: symbol {i} had ON slots {list(on)}, output keeps slot {got[0]}'))


def request_oracle(M, syms, dec, how, v):
    """the scripted RNG is asked to CHOOSE only among slots that were ON.
    A `choice` population is admissible when it is contained in the ON set of some symbol (indices relative to
    the symbol or absolute), or - only if the input has an empty symbol, which any slot may repair - in a
    slot range.  Anything else is a request to choose among slots that were not ON."""
    has_empty = any(len(on) == 0 for on in syms)
    for i, (fn, cands) in enumerate(dec):
        if fn != 'choice':
            continue
        c = set(cands)
        ok = False
        for s, on in enumerate(syms):
            if not on:
                continue
            if c <= set(on) or c <= {s * M + p for p in on}:
                ok = True
                break
        if not ok and has_empty and c <= set(range(len(syms) * M)):
            ok = True
        if not ok and not v.new('HDD:choice-among-slots-that-were-not-ON'):
            return
        if not ok:
            v.append(('HDD:choice-among-slots-that-were-not-ON',
                      f'M={M} symbols={syms} {how}: request #{i} np.random.choice({list(cands)[:40]}) offers slots that are '
                      f'not the ON slots of any symbol (ON sets {[list(o) for o in syms]})'))
            return


def explore_hdd(M, syms, max_dev, v):
    """stateless exploration of HDD's answer tree for one input pattern.
    returns (outcomes set, stats dict)."""
    x0 = syms_to_pattern(syms, M).astype(bool)
    queue = deque([((), None)])
    outcomes = set()
    leaves = nodes = edges = pruned = 0
    depth = 0
    while queue:
        prefix, expect = queue.popleft()
        rng = TreeRNG(prefix)
        outcome = call_hdd(x0.copy(), M, rng)
        dec = rng.dec
        L, D = len(prefix), len(dec)
        if expect is not None and (D < L or dec[L - 1] != expect):
            raise RuntimeError(f'answer tree is not deterministic at prefix {prefix}: {dec[L-1:L]} vs {expect}')
        leaves += 1
        nodes += D - L + 1
        edges += (D - L + 1) if L else D
        depth = max(depth, D)
        nv = len(v)
        hdd_outcome_oracle(M, syms, outcome, '@HOW@', v)
        request_oracle(M, syms, dec, '@HOW@', v)
        if len(v) > nv:     # describe the script only when something failed (keeps the per-leaf cost low)
            how = f'answers(index into candidates)={tuple(rng.answers)} decisions={[(f, list(c)[:16]) for f, c in dec][:12]}'
            v[nv:] = [(k, m.replace('@HOW@', how)) for k, m in v[nv:]]
        outcomes.add(bytes(outcome[1]) if outcome[0] == 'ok' and max(outcome[1], default=0) < 256 and min(outcome[1], default=0) >= 0
                     else repr(outcome[:2]).encode())
        ndev = sum(1 for a in prefix if a)
        ans = tuple(rng.answers)
        for i in range(L, D):
            nb = len(dec[i][1])
            if nb <= 1:
                continue
            if max_dev is not None and ndev + 1 > max_dev:
                pruned += nb - 1
                continue
            for a in range(1, nb):
                queue.append((ans[:i] + (a,), dec[i]))
    return outcomes, {'hdd_leaves': leaves, 'hdd_nodes': nodes, 'hdd_edges': edges, 'hdd_pruned_branches': pruned}


def hdd_case(case):
    """case = ('hdd', M, syms, max_dev, extras): syms = tuple of tuples of ON positions per symbol;
    max_dev None = full tree; extras: 'forms' -> container forms on the default script,
    'real' -> real-RNG outcomes must be leaves of the explored tree"""
    _, M, syms, max_dev, extras = case
    syms = tuple(tuple(s) for s in syms)
    v = Viol()
    outcomes, st = explore_hdd(M, syms, max_dev, v)
    bits = syms_to_pattern(syms, M).tolist()
    if 'forms' in extras:
        first = None
        for name, obj in container_forms(bits, group=M).items():
            oc = call_hdd(obj, M, TreeRNG(()))
            hdd_outcome_oracle(M, syms, oc, f'container form {name} = {obj!r:.120}, all answers = first candidate', v)
            # same slot sequence + same RNG answers => same result, whatever the container ("all accepted input container
            # types give the same result")
            if first is None:
                first = (name, oc)
            elif oc != first[1]:
                v.append((f'HDD:container-forms-differ:{form_family(name)}',
                          f'M={M} symbols={syms}, all answers = first candidate: form {name} = {obj!r:.120} gives {oc[1:]}, '
                          f'form {first[0]} gives {first[1][1:]}'))
            st['hdd_form_runs'] = st.get('hdd_form_runs', 0) + 1
    if 'real' in extras and max_dev is None:
        from opticomlib.ppm import HDD
        for seed in range(4):
            np.random.seed(seed)
            y = HDD(np.array(bits, dtype=bool), M)
            vals = as_int_list(data_of(y)[0])
            hdd_outcome_oracle(M, syms, ('ok', vals, type(y).__name__), f'real RNG np.random.seed({seed})', v)
            if bytes(vals) not in outcomes:
                raise RuntimeError(f'real-RNG outcome {vals} (seed {seed}) of M={M} symbols={syms} is not a leaf of the '
                                   f'explored answer tree: the scripted RNG does not cover the real one')
            st['hdd_real_runs'] = st.get('hdd_real_runs', 0) + 1
    ndec = any(sym_kind(s) != 'valid' for s in syms)
    st['hdd_patterns'] = 1
    st['hdd_patterns_multi_outcome'] = int(len(outcomes) > 1)
    st['hdd_distinct_outcomes'] = len(outcomes)
    return res(viol=_dedup(v), obs=(M, syms, max_dev, len(outcomes), zlib.crc32(b'|'.join(sorted(outcomes)))),
               nontrivial=(M, syms) if ndec else False, stats=st)


def hdd_real_case(case):
    """real-RNG conformance: case = ('hddreal', M, nslots, density, rng_seed, field_seed)"""
    from opticomlib.ppm import HDD
    _, M, nslots, dens, rseed, fseed = case
    rs = np.random.RandomState(zlib.crc32(repr(('hddreal', M, nslots, dens, fseed)).encode()))
    x = rs.random_sample(nslots) < dens
    syms = tuple(tuple(np.flatnonzero(r).tolist()) for r in x.reshape(-1, M))
    v = Viol()
    # run A: real generator, requests and answers recorded by transparent wrappers
    rec = []
    real_randint, real_choice = np.random.randint, np.random.choice

    def w_randint(*a, **k):
        r = real_randint(*a, **k)
        rec.append(('randint', a, k.get('size'), r))
        return r

    def w_choice(a, *b, **k):
        r = real_choice(a, *b, **k)
        rec.append(('choice', np.asarray(a).tolist(), k.get('size'), r))
        return r

    np.random.seed(rseed)
    np.random.randint, np.random.choice = w_randint, w_choice
    try:
        yA = HDD(x.copy(), M)
    finally:
        np.random.randint, np.random.choice = real_randint, real_choice
    a = as_int_list(data_of(yA)[0])
    hdd_outcome_oracle(M, syms, ('ok', a, type(yA).__name__), f'real RNG np.random.seed({rseed})', v)
    # run B: same seed, no wrappers (the wrappers are transparent and the seed owns the generator)
    np.random.seed(rseed)
    b = as_int_list(data_of(HDD(x.copy(), M))[0])
    if a != b:
        raise RuntimeError('HDD differs between two runs with the same np.random.seed: RNG not owned')
    # run C: scripted RNG answering with the values the real generator gave -> identical output, identical requests
    values = []
    for fn, arg, size, r in rec:
        if size is not None:
            values += np.asarray(r).ravel().tolist()
        else:
            values.append(int(r))
    rng = TreeRNG(values=values)
    oc = call_hdd(x.copy(), M, rng)
    if oc[0] != 'ok' or oc[1] != a or len(rng.dec) != len(values):
        raise RuntimeError(f'scripted replay of the real RNG answers does not reproduce the real run (M={M}, seed={rseed}): '
                           f'{oc[:2] if oc[0] != "ok" else "output differs"}')
    request_oracle(M, syms, rng.dec, f'real RNG np.random.seed({rseed})', v)
    nreq = len(values)
    return res(viol=_dedup(v), obs=(M, nslots, dens, rseed, zlib.crc32(bytes(a)), nreq),
               nontrivial=(M, dens, rseed, fseed) if nreq else False,
               stats={'hddreal_requests': nreq, 'hddreal_runs': 3})


# =========================================================================== part 3: SDD
def sdd_forms(x, with_noise=True):
    from opticomlib.typing import electrical_signal
    f = {'ndarray': np.array(x), 'electrical_signal': electrical_signal(np.array(x))}
    if with_noise:
        f['electrical_signal+zero-noise'] = electrical_signal(np.array(x), np.zeros(len(x)))
    return f


def check_sdd_output(y, expected, M, what, key, v):
    a, tname = data_of(y)
    vals = as_int_list(a)
    if tname != 'binary_sequence':
        v.append(('SDD:return-type', f'SDD returned {tname}'))
    if len(vals) != len(expected):
        v.append(('SDD:length', f'{what}: output has {len(vals)} slots, expected {len(expected)}'))
        return vals
    if vals != list(expected):
        n = len(expected) // M
        bad = [i for i in range(n) if vals[i * M:(i + 1) * M] != list(expected[i * M:(i + 1) * M])]
        i = bad[0]
        if sum(vals[i * M:(i + 1) * M]) != 1:
            v.append(('SDD:not-one-ON', f'{what}: symbol {i} of the output = {vals[i*M:(i+1)*M][:64]}'))
        else:
            v.append((key, f'{what}: symbol {i}: output ON slot {vals[i*M:(i+1)*M].index(1)}, expected '
                           f'{list(expected[i*M:(i+1)*M]).index(1)} ({len(bad)} of {n} symbols differ)'))
    return vals


def sdd_dac_case(case):
    """case = ('sdddac', M, sps, shape, syms): syms = ON position per symbol of a valid codeword"""
    from opticomlib.devices import DAC
    from opticomlib.ppm import SDD, PPM_ENCODER, PPM_DECODER
    _, M, sps, shape, syms = case
    gv_reset(sps=sps, R=1e9)
    bits = syms_to_bits(syms, M)
    _, cw = ref_encode(bits, M)
    v = Viol()
    x = DAC(np.array(cw, dtype=np.uint8), pulse_shape=shape)
    sig = np.asarray(x.signal)
    obs = []
    forms = {'electrical_signal(DAC output)': x, 'ndarray': np.array(sig)}
    from opticomlib.typing import electrical_signal
    forms['electrical_signal+zero-noise'] = electrical_signal(np.array(sig), np.zeros(sig.size))
    for name, obj in forms.items():
        y = SDD(obj, M)
        obs.append(tuple(check_sdd_output(y, cw, M, f'M={M} sps={sps} shape={shape} codeword ON positions={syms} input form={name}',
                                          f'SDD:not-identity-on-DAC(codeword):{shape}', v)))
    # the chain the receiver uses: DEC(SDD(DAC(ENC(b)))) == b
    enc = PPM_ENCODER(np.array(bits, dtype=np.uint8), M)
    rx = PPM_DECODER(SDD(DAC(enc, pulse_shape=shape), M), M)
    got = as_int_list(data_of(rx)[0])
    if got != bits:
        v.append((f'CHAIN:DEC(SDD(DAC(ENC(b))))!=b:{shape}', f'M={M} sps={sps} shape={shape} b={bits}: got {got}'))
    obs.append(tuple(got))
    gv_reset()
    return res(viol=_dedup(v), obs=(M, sps, shape, tuple(obs)), nontrivial=(M, sps, shape, syms), stats={'sdd_calls': 4})


def _rank_ok(sum1, sum2, M, margin):
    """per symbol: unique maximum, by a margin, and the same slot for both readings of 'integrated energy'"""
    a1 = sum1.reshape(-1, M)
    a2 = sum2.reshape(-1, M)
    i1 = a1.argmax(axis=1)
    i2 = a2.argmax(axis=1)
    s1 = np.sort(a1, axis=1)
    s2 = np.sort(a2, axis=1)
    ok = (i1 == i2) & (s1[:, -1] - s1[:, -2] > margin) & (s2[:, -1] - s2[:, -2] > 0)
    return ok, i1


def sdd_argmax_case(case):
    """case = ('sddarg', M, sps, nsym, family, k, seed): seeded field of slot energies without ties.
    families: 'amp'  = distinct non-negative integer amplitude per slot x one fixed non-negative pulse,
              'free' = free non-negative integer samples (sums exact in float64),
              'real' = free non-negative float samples, winner ahead by more than the summation rounding bound,
              'signed' = free signed integer samples (M <= 8).
    A symbol is kept only if the slot with the largest sum(x) is also the slot with the largest sum(x^2)
    (the statement's 'integrated energy' is decided the same way by both readings); otherwise it is redrawn."""
    from opticomlib.ppm import SDD
    _, M, sps, nsym, family, k, seed = case
    gv_reset(sps=sps, R=1e9)
    rs = np.random.RandomState(zlib.crc32(repr(('sddarg', M, sps, nsym, family, k, seed)).encode()))
    rows = []
    redraw = 0
    eps = np.finfo(float).eps
    while len(rows) < nsym:
        need = nsym - len(rows)
        if family == 'amp':
            pulse = rs.randint(0, 8, sps).astype(float)
            pulse[rs.randint(sps)] += 1.0
            amp = np.array([rs.permutation(4 * M)[:M] for _ in range(need)], dtype=float)     # distinct per symbol
            blk = amp[:, :, None] * pulse[None, None, :]
        elif family == 'free':
            blk = rs.randint(0, 1001, (need, M, sps)).astype(float)
        elif family == 'signed':
            # bipolar / DC-blocked waveforms: signed integer samples. Kept symbols still have the same winner under sum(x) and
            # sum(x^2); what they separate is the slot of largest sum from the slot of largest |sum|.
            blk = rs.randint(-1000, 1001, (need * 4, M, sps)).astype(float)
        else:
            blk = rs.random_sample((need, M, sps)) * rs.choice([1e-3, 1.0, 1e3])
        s1 = blk.sum(axis=2)
        s2 = (blk ** 2).sum(axis=2)
        margin = 0.0 if family != 'real' else 8 * sps * eps * np.abs(blk).sum(axis=2).max()
        ok, _ = _rank_ok(s1.ravel(), s2.ravel(), M, margin)
        for j in np.flatnonzero(ok):
            rows.append(blk[j])
        redraw += int((~ok).sum())
        if redraw > (50 if family != 'signed' else 4000) * nsym + 1000:
            raise RuntimeError('cannot draw tie-free energies')
    blk = np.array(rows[:nsym])
    x = blk.reshape(-1)
    win = blk.sum(axis=2).argmax(axis=1)
    expected = [0] * (nsym * M)
    for i, w in enumerate(win):
        expected[i * M + int(w)] = 1
    v = Viol()
    obs = []
    for name, obj in sdd_forms(x).items():
        y = SDD(obj, M)
        obs.append(zlib.crc32(bytes(check_sdd_output(y, expected, M, f'M={M} sps={sps} nsym={nsym} family={family} field={k} form={name}',
                                                     f'SDD:not-argmax:{family}', v))))
    gv_reset()
    return res(viol=_dedup(v), obs=(M, sps, nsym, family, k, tuple(obs), tuple(win.tolist()[:32])),
               nontrivial=(M, sps, family, k), stats={'sdd_calls': 3, 'sdd_symbols': nsym, 'sdd_redrawn_symbols': redraw})


def sdd_perm_case(case):
    """case = ('sddperm', M, sps, perm): one symbol whose slot amplitudes are the permutation `perm` of 1..M (x flat pulse)"""
    from opticomlib.ppm import SDD
    _, M, sps, perm = case
    gv_reset(sps=sps, R=1e9)
    x = np.kron(np.array(perm, dtype=float), np.ones(sps))
    expected = [0] * M
    expected[list(perm).index(M)] = 1
    v = Viol()
    y = SDD(x, M)
    vals = check_sdd_output(y, expected, M, f'M={M} sps={sps} slot amplitudes={perm}', 'SDD:not-argmax:perm', v)
    gv_reset()
    return res(viol=_dedup(v), obs=(M, sps, perm, tuple(vals)), nontrivial=(M, sps, perm), stats={'sdd_calls': 1})


def sdd_tie_case(case):
    """case = ('sddtie', M, sps, levels): EVERY assignment of slot energies from a small integer alphabet (so maxima tie,
    including the silent all-zero symbol) for one symbol, preceded and followed by a plain valid symbol.  With tied maxima
    the statement leaves open WHICH of the largest slots is turned ON, but the output must still be a valid codeword:
    exactly one ON slot per symbol, on a slot that attains the largest integrated energy."""
    from opticomlib.ppm import SDD
    _, M, sps, levels = case
    gv_reset(sps=sps, R=1e9)
    v = Viol()
    obs = []
    n = 0
    for amp in itertools.product(levels, repeat=M):
        sym = [1.0] + [0.0] * (M - 1)
        slots = np.array(sym + list(amp) + sym[::-1], dtype=float)
        x = np.kron(slots, np.ones(sps))
        for form, obj in sdd_forms(x, with_noise=False).items():
            y = SDD(obj, M)
            n += 1
            a, tname = data_of(y)
            vals = as_int_list(a)
            if len(vals) != 3 * M:
                v.append(('SDD:length', f'M={M} sps={sps} energies={amp}: output has {len(vals)} slots'))
                continue
            for k in range(3):
                blk = vals[k * M:(k + 1) * M]
                en = list(slots[k * M:(k + 1) * M])
                if sum(blk) != 1:
                    v.append(('SDD:not-one-ON:tied-energies', f'M={M} sps={sps} {form}: symbol with slot energies {en} decoded as {blk} ({sum(blk)} ON slots)'))
                elif en[blk.index(1)] != max(en):
                    v.append(('SDD:not-argmax:tied-energies', f'M={M} sps={sps} {form}: symbol with slot energies {en} decoded as {blk}'))
            obs.append(tuple(vals))
    gv_reset()
    return res(viol=_dedup(v), obs=tuple(obs), nontrivial=(M, sps, levels), stats={'sdd_calls': n})


# =========================================================================== part 4: ValueError clauses
def ve_bits(length):
    return [(i * 7 + i // 3) % 2 for i in range(length)]


def ve_case(case):
    """case = ('ve', fn, clause, M, length, form, sps): the call must raise ValueError"""
    from opticomlib.ppm import HDD, SDD
    _, fn, clause, M, length, form, sps = case
    v = Viol()
    if fn == 'HDD':
        obj = container_forms(ve_bits(length), group=M)[form]
        call = lambda: HDD(obj, M)  # noqa
    else:
        gv_reset(sps=sps, R=1e9)
        x = (np.arange(length) % 5).astype(float)
        obj = sdd_forms(x)[form]
        call = lambda: SDD(obj, M)  # noqa
    try:
        y = call()
        out = ('returned', type(y).__name__)
        v.append((f'VE:{fn}:{clause}:accepted', f'{fn}(<{form}, {length} '
                  f'{"slots" if fn == "HDD" else "samples, sps=" + str(sps)}>, M={M}) returned instead of raising ValueError'))
    except ValueError as e:
        out = ('ValueError',)
    except Exception as e:  # noqa
        out = (type(e).__name__,)
        v.append((f'VE:{fn}:{clause}:wrong-exception:{type(e).__name__}',
                  f'{fn}(<{form}, {length}>, M={M}, sps={sps}) raised {type(e).__name__}: {e} instead of ValueError'))
    if fn != 'HDD':
        gv_reset()
    return res(viol=v, obs=(fn, clause, M, length, form, sps, out), nontrivial=(fn, clause, M, length, form, sps))


# =========================================================================== enumeration of the spaces
def all_patterns(M, n):
    """every slot pattern of n symbols, simplest first (by number of non-valid symbols, then value)"""
    per = []
    for bits in range(2 ** M):
        per.append(tuple(p for p in range(M) if (bits >> (M - 1 - p)) & 1))
    per.sort(key=lambda on: (len(on) != 1, len(on), on))
    return itertools.product(per, repeat=n)


def symbol_kinds(M):
    ks = [(), (0,), (M - 1,), (0, 1), (0, M - 1), (M // 2 - 1, M // 2), (1, M // 2, M - 2), tuple(range(M)), tuple(range(1, M))]
    out = []
    for k in ks:
        k = tuple(sorted(set(k)))
        if k not in out:
            out.append(k)
    return out


def hdd_spaces(tier):
    """list of (part name, [cases], horizon)"""
    quick = tier == 'quick'
    parts = []
    # (a) EVERY slot pattern, FULL answer tree
    full = {2: range(1, 7), 4: range(1, 4), 8: range(1, 2)} if quick else \
           {2: range(1, 9), 4: range(1, 5), 8: range(1, 3), 16: range(1, 2)}
    for M, ns in full.items():
        for n in ns:
            extras = ('forms', 'real') if n * M <= 12 else ()
            parts.append((f'hdd.full.M{M}.n{n}', [('hdd', M, s, None, extras) for s in all_patterns(M, n)], 300))
    # (b) EVERY slot pattern, deviation-bounded tree (quick only: 13..16 slots; thorough explores these fully above)
    if quick:
        for M, ns in {2: (7, 8), 4: (4,), 8: (2,)}.items():
            for n in ns:
                parts.append((f'hdd.dev2.M{M}.n{n}', [('hdd', M, s, 2, ()) for s in all_patterns(M, n)], 300))
    else:
        parts.append(('hdd.dev1.M2.n9', [('hdd', 2, s, 1, ()) for s in all_patterns(2, 9)], 300))
    # (c) large orders and long sequences: symbols from a kinds alphabet, deviation-bounded
    for M in ORDERS[3:]:
        kinds = symbol_kinds(M)
        for n in (1, 2, 3):
            if quick and n == 3 and M > 64:
                continue
            dev = None if n == 1 else (1 if quick else (None if n == 2 else 1))
            name = f'hdd.kinds.M{M}.n{n}.' + ('full' if dev is None else f'dev{dev}')
            # container forms here as well: the grouped string spellings ('<M slots> <M slots>') of the orders >= 8 need
            # >= 2 symbols, i.e. more slots than the exhaustive <= 12-slot patterns above have
            parts.append((name, [('hdd', M, s, dev, ('forms',)) for s in itertools.product(kinds, repeat=n)], 3600 if dev is None else 600))
    long_seq = [(4, 5, 1), (8, 3, 2), (8, 4, 2)] if quick else [(4, 5, 2), (8, 3, None), (8, 4, 2), (8, 5, 2)]
    for M, n, dev in long_seq:
        kinds = symbol_kinds(M)
        name = f'hdd.kinds.M{M}.n{n}.' + ('full' if dev is None else f'dev{dev}')
        parts.append((name, [('hdd', M, s, dev, ()) for s in itertools.product(kinds, repeat=n)], 600))
    return parts


def enc_spaces(tier, seed):
    quick = tier == 'quick'
    parts = []
    # string spellings: every one for every word in the thorough tier; quick: every one up to 8 bits, the core five above
    bulk = 'core' if quick else 'all'
    words = [('enc', M, L, val, 'all' if L <= 8 else bulk) for L in range(0, 13) for val in range(2 ** L) for M in ORDERS]
    parts.append(('encdec.words<=12bits', words, 120))
    # every ordered pair / triple of symbol values
    seq = []
    for M in ORDERS:
        edge = sorted({0, 1, M // 2 - 1 if M > 2 else 0, M // 2, M - 2 if M > 2 else 0, M - 1})
        tails = tuple(range(M)) if (not quick or M <= 32) else tuple(edge)
        for v1 in range(M):
            seq.append(('encseq', M, (v1,), tails, bulk))
        for v1 in edge:
            for v2 in edge:
                seq.append(('encseq', M, (v1, v2), tuple(edge), bulk))
    parts.append(('encdec.symbol-sequences', seq, 300))
    longs = []
    for M in ORDERS:
        k = log2i(M)
        for nb in sorted({2000, 2000 + k - 1, 4096 + 1}):
            for kind in ('zeros', 'ones', 'alt'):
                longs.append(('enclong', M, nb, kind, 0, bulk))
            for j in range(2 if quick else 8):
                longs.append(('enclong', M, nb, 'seeded', seed * 1000 + j, bulk))
    parts.append(('encdec.long-words', longs, 300))
    return parts


def codewords(M, quick):
    """valid codewords as tuples of ON positions, simplest first"""
    nmax = {2: 6, 4: 3, 8: 2}.get(M, 1) if quick else {2: 8, 4: 4, 8: 2, 16: 2}.get(M, 1)
    out = []
    for n in range(1, nmax + 1):
        out += list(itertools.product(range(M), repeat=n))
    if M >= 16:
        edge = sorted({0, 1, M // 2, M - 1})
        have = set(out)
        out += [p for p in itertools.product(edge, repeat=2) if p not in have]
        out += [p for p in itertools.product((0, M - 1), repeat=3)]
    return out


def sdd_spaces(tier, seed):
    quick = tier == 'quick'
    parts = []
    dac = []
    for sps, shape in [(1, 'nrz')] + [(s, sh) for s in (2, 5, 16) for sh in ('nrz', 'rz', 'gaussian')]:
        for M in ORDERS:
            for cw in codewords(M, quick):
                dac.append(('sdddac', M, sps, shape, cw))
    dac.sort(key=lambda c: (len(c[4]) * c[1], c[1], c[2]))
    parts.append(('sdd.identity-on-DAC(codeword)', dac, 120))
    arg = []
    for M in ORDERS:
        for sps in (1, 2, 5, 16):
            for fam in ('amp', 'free', 'real', 'signed'):
                if fam == 'signed' and M > 8:
                    continue
                for k in range(2 if quick else 8):
                    arg.append(('sddarg', M, sps, max(2, 512 // M) if fam != 'signed' else 32, fam, k, seed))
    parts.append(('sdd.argmax-seeded-energies', arg, 120))
    perm = []
    for M in (2, 4) if quick else (2, 4, 8):
        for sps in (1, 2, 5, 16):
            for p in itertools.permutations(range(1, M + 1)):
                perm.append(('sddperm', M, sps, p))
    parts.append(('sdd.argmax-permutations', perm, 120))
    tie = []
    for M in (2, 4) if quick else (2, 4, 8):
        for sps in (1, 2, 5, 16):
            for levels in ((0.0, 1.0), (0.0, 1.0, 2.0)) if M <= 4 else ((0.0, 1.0),):
                tie.append(('sddtie', M, sps, levels))
    parts.append(('sdd.tied-energies', tie, 300))
    return parts


def ve_spaces(tier):
    quick = tier == 'quick'
    cases = []
    hforms = ['str', 'list', 'tuple', 'ndarray:uint8', 'ndarray:bool', 'binary_sequence']

    def hdd_forms(M, length):
        # + every separator spelling of the string form that exists for this length (see string_spellings)
        return hforms + [k for k in string_spellings(ve_bits(length), M) if k != 'str']

    for M in NON_POWERS:
        for length in sorted({M, 2 * M, 4 * M, 8, 16, 24}):
            for form in hdd_forms(M, length):
                cases.append(('ve', 'HDD', 'order-not-power-of-two', M, length, form, 0))
    for M in ORDERS:
        ls = range(1, 3 * M) if M <= 8 else (1, M // 2, M - 1, M + 1, 2 * M - 1, 2 * M + 1, 3 * M + M // 2)
        for length in ls:
            if length % M:
                for form in hdd_forms(M, length):
                    cases.append(('ve', 'HDD', 'length-not-whole-symbols', M, length, form, 0))
    sforms = ['ndarray', 'electrical_signal', 'electrical_signal+zero-noise']
    for sps in (2, 5, 16):
        for M in NON_POWERS:
            for length in sorted({M * sps, 2 * M * sps, 16 * sps}):
                for form in sforms:
                    cases.append(('ve', 'SDD', 'order-not-power-of-two', M, length, form, sps))
        for M in ORDERS:
            base = M * sps
            for length in sorted({1, sps, base - 1, base + 1, base + sps, 2 * base - sps, 2 * base + 1, base + base // 2}):
                if length % base:
                    for form in sforms:
                        cases.append(('ve', 'SDD', 'length-not-whole-symbols', M, length, form, sps))
    return [('valueerror-clauses', cases, 120)]


def conformance_space(tier, seed):
    quick = tier == 'quick'
    cases = []
    for M in ORDERS:
        nslots = M * -(-2000 // M)
        for dens in sorted({0.5 / M, 1.0 / M, 0.5, 0.9}):
            for rseed in range(8):
                for f in range(1 if quick else 4):
                    cases.append(('hddreal', M, nslots, dens, rseed, seed * 100 + f))
    return [('hdd.real-rng-conformance', cases, 300)]


# =========================================================================== driver
REGRESS = [
    # smallest members of each part; run first so that a broken tree reports within a second
    (hdd_case, ('hdd', 2, ((0, 1),), None, ('forms', 'real'))),
    (hdd_case, ('hdd', 4, ((), (1, 2)), None, ('forms', 'real'))),
    (enc_case, ('enc', 4, 2, 0b01, 'all')),          # one 4-ary symbol: bit order
    (enc_case, ('enc', 2, 2, 0b01, 'all')),          # two binary symbols: position modulo M
    (sdd_dac_case, ('sdddac', 2, 2, 'nrz', (1,))),
    (sdd_dac_case, ('sdddac', 4, 2, 'rz', (1, 3))),
]


def run(ctx):
    tier, seed = ctx.tier, ctx.seed
    ctx.rule('C12: (1) PPM_ENCODER/PPM_DECODER on EVERY bit string of length 0..12 x M in {2..256} x every container form '
             '(str - separator-free AND every separator spelling of the library string format: blank, comma, comma+blank, 2 blanks, '
             'blank+comma between elements or between symbols/bit blocks, blank-padded; quick: the 5 core spellings above 8 bits - '
             '/list/tuple/ndarray of 4 dtypes/binary_sequence/binary_sequence(str with blanks)); the same forms for HDD on every '
             'pattern <= 12 slots and the kinds alphabet, and in the ValueError clauses; every ordered pair of symbol values, edge triples, long '
             'structured + seeded words; (2) HDD: stateless exploration of the nondeterminism tree - a scripted numpy RNG turns every '
             'scalar randint/choice request into a tree node and the explorer re-executes the real HDD for every answer - FULL tree '
             'for EVERY slot pattern (quick: <=12 slots M in {2,4,8}; thorough: <=16 slots M in {2,4,8,16}), deviation-bounded tree '
             '(<=d answers differ from the first candidate) for 13..18-slot patterns, for orders 16..256 and 5-6 symbol sequences '
             'over a 9-kind symbol alphabet; on every leaf: exactly one ON per symbol, valid symbols unchanged, kept slot was ON; on '
             'every request: choice only among ON slots; real-RNG outcomes must be leaves of the tree; (3) real-RNG conformance on '
             '2000-slot seeded patterns, 8 seeds, replayed through the scripted RNG; (4) SDD identity on DAC(codeword) for sps in '
             '{1,2,5,16} x nrz/rz/gaussian x exhaustive short codewords per order, chain DEC(SDD(DAC(ENC(b))))==b; SDD argmax on '
             'tie-free seeded energies (3 families) and every permutation of slot amplitudes; (5) ValueError for non-power-of-two '
             'orders and ragged lengths, all container forms')
    ctx.assume('numpy.random.randint/choice with a seeded generator only ever return values from the candidate set the call '
               'describes (bound by the conformance part: every recorded real answer is a candidate and replaying it through the '
               'scripted RNG reproduces the real output byte for byte)')
    ctx.assume('HDD reaches the RNG only through the module attributes numpy.random.randint/choice/normal/randn (any other '
               'numpy.random entry point raises "unscripted randomness" = harness error, exit 2)')
    ctx.assume("SDD's 'integrated energy' of a slot: seeded fields are restricted to symbols on which sum(x) and sum(x^2) over the "
               'slot select the same slot, so the oracle does not depend on which of the two readings is meant; a choice request '
               'whose population is not contained in the ON set of any symbol (and no empty symbol exists that it could repair) is '
               'reported although an implementation could in principle discard the drawn value')
    ctx.assume("VERIF_SEED selects only the content of the seeded long words / slot patterns / energy fields; enumeration is fixed")

    for fn, case in REGRESS:
        ctx.run_case('smallest-cases', fn, case)

    # ---- HDD answer trees
    for name, cases, horizon in hdd_spaces(tier):
        ctx.pmap(name, hdd_case, cases, horizon=horizon, quiet=False, recheck=2)
    st = ctx.stats
    ctx.graph(states=st.get('hdd_nodes', 0), transitions=st.get('hdd_edges', 0), traces=st.get('hdd_leaves', 0))
    ctx.extra['hdd_tree'] = {k: st.get(k, 0) for k in ('hdd_patterns', 'hdd_leaves', 'hdd_nodes', 'hdd_edges', 'hdd_pruned_branches',
                                                        'hdd_patterns_multi_outcome', 'hdd_distinct_outcomes', 'hdd_real_runs',
                                                        'hdd_form_runs')}
    print(f'[C12] HDD trees: {ctx.extra["hdd_tree"]}', flush=True)
    # vacuity floor (DESIGN 7): the RNG seam must bite - some pattern must have >= 2 distinct outcomes
    if st.get('hdd_patterns_multi_outcome', 0) < 1 or st.get('hdd_leaves', 0) <= st.get('hdd_patterns', 0):
        ctx.harness_errors.append(('hdd', '-', 'vacuous: no pattern produced two distinct outcomes - the scripted RNG is not reaching HDD'))

    for name, cases, horizon in conformance_space(tier, seed):
        ctx.pmap(name, hdd_real_case, cases, horizon=horizon, recheck=2)

    # ---- encoder / decoder
    for name, cases, horizon in enc_spaces(tier, seed):
        fn = {'enc': enc_case, 'encseq': encseq_case, 'enclong': enclong_case}[cases[0][0]]
        ctx.pmap(name, fn, cases, horizon=horizon, recheck=2)

    # ---- SDD
    for name, cases, horizon in sdd_spaces(tier, seed):
        fn = {'sdddac': sdd_dac_case, 'sddarg': sdd_argmax_case, 'sddperm': sdd_perm_case, 'sddtie': sdd_tie_case}[cases[0][0]]
        ctx.pmap(name, fn, cases, horizon=horizon, recheck=2)

    # ---- ValueError clauses
    for name, cases, horizon in ve_spaces(tier):
        ctx.pmap(name, ve_case, cases, horizon=horizon, recheck=2)
