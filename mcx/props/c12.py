"""C12 - PPM encode/decode bijection; HDD/SDD emit valid codewords.

Core (model checking): the FULL nondeterminism tree of `ppm.HDD` - every answer numpy's RNG can
give to every `randint`/`choice` request - explored statelessly on the real function through a
scripted RNG (mcx.core.env.ScriptedRNG, specialised below to scalar decision points), for every
slot pattern of a bounded size; deviation bounded (at most d answers differ from "first candidate")
where the tree is too big.  Around it: exhaustive encoder/decoder words x container forms, SDD
identity on DAC(codeword), SDD argmax on tie-free seeded energies, the ValueError clauses and a
real-RNG conformance run binding the scripted RNG to numpy's generator.
"""
from __future__ import annotations

import itertools
import zlib
from collections import deque

import numpy as np

from mcx.core.env import ScriptedRNG, Unscripted, gv_reset, scripted_rng
from mcx.core.kernel import res

ID = 'C12'
LEVEL = 'model_checking'
NONTRIVIAL = ('HDD: slot patterns with >=1 empty or multi-ON symbol (>=1 RNG decision), counted per distinct (M, pattern); '
              'encoder/decoder: words with >=1 whole symbol, counted per distinct (M, word); SDD: waveforms whose slots '
              'carry >=2 different energies, counted per distinct observation')

ORDERS = [2, 4, 8, 16, 32, 64, 128, 256]
NON_POWERS = [3, 5, 6, 7, 9, 10, 12, 24, 100, 255, 257, 1023, -1, -2, -4, -256]     # |.| = 2^k and 2^k +- 1 included
# 0 is not a power of two either; it is kept under its own clause name (finding C12_1: ZeroDivisionError instead of ValueError)


def log2i(M):
    return M.bit_length() - 1


# =========================================================================== reference models
def ref_encode(bits, M):
    """list of 0/1 -> (truncated bits, codeword list): one ON slot per block at the big-endian value"""
    k = log2i(M)
    n = len(bits) // k
    cw = [0] * (n * M)
    for s in range(n):
        v = 0
        for b in bits[s * k:(s + 1) * k]:
            v = 2 * v + int(b)
        cw[s * M + v] = 1
    return list(bits[:n * k]), cw


def syms_to_bits(syms, M):
    k = log2i(M)
    out = []
    for v in syms:
        out += [(v >> (k - 1 - i)) & 1 for i in range(k)]
    return out


def syms_to_pattern(syms, M):
    """syms: tuple of tuples of ON positions -> uint8 slot array"""
    x = np.zeros(len(syms) * M, dtype=np.uint8)
    for i, on in enumerate(syms):
        for p in on:
            x[i * M + p] = 1
    return x


# Separators of the library's string format.  Source: the docstring of `opticomlib.utils.str2array` ("Use comma (,) or
# whitespace ( ) as element separators ...  For binary numbers ... sequence don't need to be separated by commas or spaces
# although it is allowed", special case '1 0 1 10' -> [1,0,1,1,0]) and the docstrings of HDD / binary_sequence, which write
# codewords as '0100 0111 0000'.  Only the blank and the comma are used: other whitespace (tab, newline) matches the
# parser's regular expression but is not removed by it, and ';' starts a new ROW (2-D array) - neither is an accepted
# spelling of a 1-D bit sequence, so neither is asserted.
SEPARATORS = (('space', ' '), ('comma', ','), ('comma+space', ', '), ('2spaces', '  '), ('space+comma', ' ,'))


CORE_SPELLINGS = ('str', 'str+sep:space/element', 'str+sep:comma/element', 'str+sep:comma+space/element', 'str+sep:space/group')


def string_spellings(bits, group=None):
    """every spelling of the 0/1 sequence `bits` in the library's string format: separator-free, each separator between
    all elements, each separator between groups of `group` elements (symbols / bit blocks), and blank-padded variants.
    Pure (no library call): the denoted sequence is `bits` by construction.  Spellings that coincide as strings (e.g. a
    one-element sequence) are listed once, under the simplest name.  '' is not an accepted string form
    (binary_sequence('') raises as well), so an empty sequence has no spelling."""
    s = [str(int(b)) for b in bits]
    if not s:
        return {}
    out = {'str': ''.join(s)}
    have = {out['str']}

    def add(name, text):
        if text not in have:
            have.add(text)
            out[name] = text

    chunks = None
    if group and group > 1 and len(s) > group:
        chunks = [''.join(s[i:i + group]) for i in range(0, len(s), group)]
    for name, sep in SEPARATORS:
        add(f'str+sep:{name}/element', sep.join(s))
        if chunks:
            add(f'str+sep:{name}/group', sep.join(chunks))
    add('str+sep:padded', ' ' + out['str'] + ' ')
    add('str+sep:padded+space/element', ' ' + ' '.join(s) + ' ')
    if chunks:
        add('str+sep:padded+comma+space/group', ' ' + ', '.join(chunks) + ' ')
    return out


# sample dtypes of a 0/1 ndarray beyond the four core ones (uint8, bool, int64, float64).  complex128 with zero imaginary
# part is an ndarray the three functions accept today (np.array(x, dtype=bool)); binary_sequence(complex) is not used.
HDD_REUSED_FORMS = ('binary_sequence', 'ndarray:uint8', 'ndarray:bool', 'list')
REUSED_FORMS = ('binary_sequence',)      # form on which a deterministic function is called a second time (its .data is used without a copy)
EXTRA_BIT_DTYPES = ('int8', 'int16', 'int32', 'uint16', 'uint32', 'uint64', 'float16', 'float32', 'complex128')


def arg_snapshot(obj):
    """what a caller can observe of an argument object (None for immutable containers)"""
    if isinstance(obj, np.ndarray):
        return ('nd', obj.dtype.str, obj.shape, obj.tobytes())
    if isinstance(obj, list):
        return ('list', [repr(e) for e in obj])
    if isinstance(obj, (str, tuple)):
        return None
    out = []
    for name in ('data', 'signal', 'noise'):
        a = getattr(obj, name, None)
        out.append(None if a is None else (np.asarray(a).dtype.str, np.asarray(a).shape, np.asarray(a).tobytes()))
    return ('obj', out)


def arg_modified(fn, name, obj, snap, v):
    """the functions RETURN a sequence; the argument object is the caller's (the received sequence is used again: BER
    counting, a second decoder, the same object under another RNG state).  Any observable change of it is reported."""
    if snap is not None and arg_snapshot(obj) != snap:
        v.append((f'{fn}:argument-modified:{form_family(name)}', f'{fn} changed its argument object (form {name}): now {obj!r:.200}'))


def container_forms(bits, with_dtypes=True, group=None, strings='all'):
    """every accepted container type holding the same 0/1 sequence.  `group`: block size of the grouped string
    spellings (M for slot sequences, log2 M for bit sequences); strings: 'all' = every spelling, 'core' = the separator-free
    string + blank / comma / comma+blank between elements + blank between groups (CORE_SPELLINGS), 'plain' = no separators.
    with_dtypes: False = uint8 ndarray only, True = + bool/int64/float64, 'all' = every dtype / element type / layout /
    write-protected variant (hardening pass)."""
    from opticomlib.typing import binary_sequence
    bits = [int(b) for b in bits]
    f = {}
    sp = string_spellings(bits, group)
    if strings != 'all':
        keep = CORE_SPELLINGS if strings == 'core' else ('str',)
        sp = {k: t for k, t in sp.items() if k in keep}
    f.update(sp)
    f['list'] = list(bits)
    f['tuple'] = tuple(bits)
    f['ndarray:uint8'] = np.array(bits, dtype=np.uint8)
    if with_dtypes:
        f['ndarray:bool'] = np.array(bits, dtype=bool)
        f['ndarray:int64'] = np.array(bits, dtype=np.int64)
        f['ndarray:float64'] = np.array(bits, dtype=np.float64)
    if with_dtypes == 'all':
        # hardening pass: a 0/1 sequence in every sample dtype, element type and memory layout an accepted container can have
        for dt in EXTRA_BIT_DTYPES:
            f[f'ndarray:{dt}'] = np.array(bits, dtype=dt)
        f['list:bool'] = [bool(b) for b in bits]
        f['list:float'] = [float(b) for b in bits]
        f['list:numpy-int64'] = [np.int64(b) for b in bits]
        f['tuple:bool'] = tuple(bool(b) for b in bits)
        f['tuple:numpy-float64'] = tuple(np.float64(b) for b in bits)
        f['ndarray:uint8:strided-view'] = np.array([b for b in bits for _ in (0, 1)], dtype=np.uint8)[::2]
        f['ndarray:bool:reversed-view'] = np.array(bits[::-1], dtype=bool)[::-1]
        for k in ('ndarray:uint8', 'ndarray:bool', 'ndarray:int64'):
            a = f[k].copy()
            a.flags.writeable = False
            f[k + ':write-protected'] = a
        for k, src in (('binary_sequence(<ndarray:bool>)', np.array(bits, dtype=bool)),
                       ('binary_sequence(<ndarray:float64>)', np.array(bits, dtype=np.float64)),
                       ('binary_sequence:write-protected', list(bits))):
            f[k] = binary_sequence(src)
        f['binary_sequence:write-protected'].data.flags.writeable = False
    f['binary_sequence'] = binary_sequence(list(bits))
    # the spelling of the library's own docstrings (HDD(binary_sequence('0100 0111 0000'), 4)): object built from a string
    for k in ('str+sep:space/group', 'str+sep:space/element', 'str'):
        if k in sp:
            f[f'binary_sequence(<{k}>)'] = binary_sequence(sp[k])
            break
    return f


def form_family(name):
    """violation-key suffix of a container form: 'str', 'str+sep', 'list', 'ndarray', 'binary_sequence', 'binary_sequence(str)'"""
    if name.startswith('binary_sequence(<str'):
        return 'binary_sequence(str)'
    if name.startswith('binary_sequence'):
        return 'binary_sequence'
    return name.split(':')[0]


def data_of(y):
    """returned sequence -> (list of ints, type name)"""
    d = getattr(y, 'data', y)
    a = np.asarray(d)
    return a, type(y).__name__


def as_int_list(a):
    return [int(v) for v in np.asarray(a).ravel().tolist()]


# =========================================================================== part 1: encoder / decoder words
def check_encoder_output(bits, M, out, v, tag):
    """oracle of the statement, written out clause by clause"""
    k = log2i(M)
    n = len(bits) // k
    a, tname = data_of(out)
    if tname != 'binary_sequence':
        v.append(('ENC:return-type', f'{tag}: PPM_ENCODER returned {tname}'))
    if a.ndim != 1 or a.size != n * M:
        v.append(('ENC:length', f'{tag}: bits={bits} M={M}: output has {a.size} slots, expected {n}*{M}'))
        return None
    vals = as_int_list(a)
    if any(x not in (0, 1) for x in vals):
        v.append(('ENC:non-binary', f'{tag}: bits={bits} M={M}: output {vals}'))
        return vals
    for s in range(n):
        blk = vals[s * M:(s + 1) * M]
        if sum(blk) != 1:
            v.append(('ENC:not-one-ON-per-block', f'{tag}: bits={bits} M={M}: block {s} = {blk}'))
            return vals
        val = int(''.join(map(str, bits[s * k:(s + 1) * k])), 2)
        if blk.index(1) != val:
            v.append(('ENC:position-not-big-endian',
                      f'{tag}: bits={bits} M={M}: block {s} ON at {blk.index(1)}, big-endian value of '
                      f'{bits[s*k:(s+1)*k]} is {val}'))
            return vals
    return vals


def enc_dec_one(bits, M, v, with_dtypes=True, strings='all'):
    """runs every container form of `bits` through encoder and decoder; returns canonical observation"""
    from opticomlib.ppm import PPM_ENCODER, PPM_DECODER
    trunc, cw = ref_encode(bits, M)
    obs = []
    base = None
    for name, obj in container_forms(bits, with_dtypes, group=log2i(M), strings=strings).items():
        snap = arg_snapshot(obj)
        y = PPM_ENCODER(obj, M)
        arg_modified('ENC', name, obj, snap, v)
        fam = form_family(name)
        vals = as_int_list(data_of(y)[0])
        if name in REUSED_FORMS and as_int_list(data_of(PPM_ENCODER(obj, M))[0]) != vals:
            v.append((f'ENC:same-object-reused:{fam}', f'bits={bits} M={M}: the second PPM_ENCODER call on the same {name} object differs'))
        if base is None:
            base = vals
            check_encoder_output(bits, M, y, v, f'form={name}')
        elif vals != base:
            v.append((f'ENC:container-forms-differ:{fam}',
                      f'bits={bits} M={M}: form {name} = {obj!r:.200} gives {vals}, first form gives {base}'))
        obs.append(tuple(vals))
    # decoder on the reference codeword (independent of the encoder) in every container form
    dbase = None
    for name, obj in container_forms(cw, with_dtypes, group=M, strings=strings).items():
        snap = arg_snapshot(obj)
        z = PPM_DECODER(obj, M)
        arg_modified('DEC', name, obj, snap, v)
        fam = form_family(name)
        a, tname = data_of(z)
        vals = as_int_list(a)
        if name in REUSED_FORMS and as_int_list(data_of(PPM_DECODER(obj, M))[0]) != vals:
            v.append((f'DEC:same-object-reused:{fam}', f'codeword={cw} M={M}: the second PPM_DECODER call on the same {name} object differs'))
        if dbase is None:
            dbase = vals
            if tname != 'binary_sequence':
                v.append(('DEC:return-type', f'PPM_DECODER returned {tname}'))
            if vals != trunc:
                v.append(('DEC:codeword->bits', f'M={M}: PPM_DECODER({cw}) = {vals}, expected big-endian bits {trunc}'))
        elif vals != dbase:
            v.append((f'DEC:container-forms-differ:{fam}',
                      f'codeword={cw} M={M}: form {name} = {obj!r:.200} gives {vals}, first form gives {dbase}'))
        obs.append(tuple(vals))
    # round trip through the real encoder's own output object
    y = PPM_ENCODER(container_forms(bits, False)['ndarray:uint8'], M)
    z = PPM_DECODER(y, M)
    rt = as_int_list(data_of(z)[0])
    if rt != trunc:
        v.append(('DEC:roundtrip', f'bits={bits} M={M}: DEC(ENC(b)) = {rt}, expected b truncated to whole symbols = {trunc}'))
    obs.append(tuple(rt))
    # chained call: the encoder's own output object through HDD ("identity on valid codewords"), whatever the RNG would answer
    oc = call_hdd(y, M, TreeRNG(fill=-1))
    if oc[:2] != ('ok', cw):
        v.append(('CHAIN:HDD(ENC(b))!=ENC(b)', f'bits={bits} M={M}: HDD(PPM_ENCODER(b)) gives {oc[1]!r:.300}, the codeword is {cw}'))
    elif as_int_list(data_of(y)[0]) != cw:
        v.append(('HDD:argument-modified:binary_sequence', f'bits={bits} M={M}: HDD changed the encoder output object it was given'))
    obs.append(tuple(oc[1]) if oc[0] == 'ok' else oc[:2])
    return tuple(obs)


def enc_case(case):
    """case = ('enc', M, L, value, strings, dtypes): the bit string = L-digit big-endian binary of value; strings = which string
    spellings, dtypes = which ndarray dtypes / element types / layouts join the container forms (see container_forms)"""
    _, M, L, value, strings, dtypes = case
    bits = [(value >> (L - 1 - i)) & 1 for i in range(L)]
    v = Viol()
    obs = enc_dec_one(bits, M, v, with_dtypes=dtypes, strings=strings)
    nt = (M, L, value) if L >= log2i(M) else False
    return res(viol=_dedup(v), obs=(M, L, obs), nontrivial=nt, stats={'enc_words': 1})


def encseq_case(case):
    """case = ('encseq', M, head symbols tuple, tail alphabet tuple, strings): words = head + (t,) for every t"""
    _, M, head, tails, strings = case
    v = Viol()
    obs = []
    for t in tails:
        syms = tuple(head) + (t,)
        obs.append(enc_dec_one(syms_to_bits(syms, M), M, v, with_dtypes=False, strings=strings))
    return res(viol=_dedup(v), obs=(M, head, tuple(obs)), nontrivial=(M, head, tails), stats={'enc_words': len(tails)})


def enclong_case(case):
    """case = ('enclong', M, nbits, kind, seed, strings): long word; kind in zeros/ones/alt/seeded"""
    _, M, nbits, kind, seed, strings = case
    if kind == 'zeros':
        bits = [0] * nbits
    elif kind == 'ones':
        bits = [1] * nbits
    elif kind == 'alt':
        bits = [i % 2 for i in range(nbits)]
    else:
        rs = np.random.RandomState(zlib.crc32(repr(('enclong', M, nbits, kind, seed)).encode()))
        bits = rs.randint(0, 2, nbits).tolist()
    v = Viol()
    obs = enc_dec_one(bits, M, v, with_dtypes=False, strings=strings)
    return res(viol=_dedup(v), obs=(M, nbits, kind, zlib.crc32(repr(obs).encode())), nontrivial=(M, nbits, kind, seed),
               stats={'enc_words': 1})


class Viol(list):
    """violation collector: first message per key; `new(key)` lets the oracle skip formatting repeated keys"""

    def __init__(self):
        super().__init__()
        self.keys = set()

    def new(self, key):
        return key not in self.keys

    def append(self, item):
        if item[0] not in self.keys:
            self.keys.add(item[0])
            super().append(item)


def _dedup(v):
    """first message per key within one case"""
    seen, out = set(), []
    for k, m in v:
        if k not in seen:
            seen.add(k)
            out.append((k, m[:1500]))
    return out


# =========================================================================== part 2: HDD nondeterminism tree
class HarnessLimit(Exception):
    """the scripted RNG was used in a way the tree explorer does not model (never a violation)"""


class TreeRNG(ScriptedRNG):
    """ScriptedRNG specialised to scalar decision points.  Every scalar the library requests from
    `randint`/`choice` is one node of the answer tree; the answer is an INDEX into the candidate
    list, taken from `prefix` and 0 ("first candidate") beyond it.  All decisions are recorded."""

    def __init__(self, prefix=(), values=None, fill=0):
        super().__init__()
        self.prefix = tuple(prefix)
        self.fill = fill              # answer beyond the prefix: 0 = first candidate, -1 = last candidate
        self.values = values          # conformance replay: answer by VALUE (recorded from the real RNG)
        self.dec = []                 # (fn, candidates tuple)
        self.answers = []

    def _decide(self, fn, cands):
        i = len(self.dec)
        if len(cands) == 0:
            # numpy raises ValueError for an empty candidate set as well
            raise ValueError(f'{fn}: empty candidate set')
        if self.values is not None:
            if i >= len(self.values):
                raise HarnessLimit('replay script shorter than the request sequence')
            val = self.values[i]
            if val not in cands:
                raise HarnessLimit(f'recorded real answer {val} is not among the candidates {cands[:8]}')
            idx = cands.index(val)
        else:
            idx = self.prefix[i] if i < len(self.prefix) else (len(cands) - 1 if self.fill == -1 else 0)
            if idx >= len(cands):
                raise HarnessLimit(f'answer tree is not deterministic: decision {i} has {len(cands)} candidates, script index {idx}')
        self.dec.append((fn, tuple(cands)))
        self.answers.append(idx)
        self.requests.append({'fn': fn, 'n': len(cands)})
        return idx

    def randint(self, low, high=None, size=None, dtype=int):
        lo, hi = (0, low) if high is None else (low, high)
        if np.ndim(lo) or np.ndim(hi):
            raise HarnessLimit('randint with array bounds')
        cands = list(range(int(lo), int(hi)))
        if size is None:
            return cands[self._decide('randint', cands)]
        n = int(np.prod(size))
        return np.array([cands[self._decide('randint', cands)] for _ in range(n)], dtype=dtype).reshape(size)

    def choice(self, a, size=None, replace=True, p=None):
        arr = np.arange(a) if np.ndim(a) == 0 else np.asarray(a)
        if arr.ndim != 1:
            raise HarnessLimit('choice on a non 1-D population')
        cands = arr.tolist()
        if size is None:
            return arr[self._decide('choice', cands)]
        if not replace:
            raise HarnessLimit('choice(replace=False)')
        n = int(np.prod(size))
        return np.array([arr[self._decide('choice', cands)] for _ in range(n)]).reshape(size)


def call_hdd_raw(x, M, rng, fn=None):
    """one execution of the real HDD under a scripted RNG.  returns ('ok', returned object) | ('exc', type name, text)"""
    from opticomlib.ppm import HDD
    try:
        with scripted_rng(rng):
            y = (fn or HDD)(x, M)
    except (HarnessLimit, Unscripted) as e:
        # re-raised from a harness frame on purpose: exit 2 (result not trustworthy), never a VIOLATION
        raise RuntimeError(f'{type(e).__name__}: {e}') from None
    except Exception as e:  # noqa - anything the library raises under some RNG answer is an outcome
        return ('exc', type(e).__name__, str(e)[:200])
    return ('ok', y)


def call_hdd(x, M, rng, fn=None):
    """returns ('ok', int list, type name) | ('exc', type name, text)"""
    oc = call_hdd_raw(x, M, rng, fn)
    if oc[0] == 'exc':
        return oc
    a, tname = data_of(oc[1])
    return ('ok', as_int_list(a), tname)


def sym_kind(on):
    return 'empty' if len(on) == 0 else 'valid' if len(on) == 1 else 'multi-ON'


def hdd_outcome_oracle(M, syms, outcome, how, v):
    """the three HDD clauses of the statement on one outcome"""
    n = len(syms)
    if outcome[0] == 'exc':
        v.append((f'HDD:raises:{outcome[1]}', f'M={M} symbols={syms} {how}: HDD raised {outcome[1]}: {outcome[2]}'))
        return
    vals, tname = outcome[1], outcome[2]
    if tname != 'binary_sequence':
        v.append(('HDD:return-type', f'HDD returned {tname}'))
    if len(vals) != n * M:
        v.append(('HDD:length', f'M={M} symbols={syms} {how}: output has {len(vals)} slots, expected {n*M}'))
        return
    if any(x not in (0, 1) for x in vals):
        v.append(('HDD:non-binary', f'M={M} symbols={syms} {how}: output {vals[:64]}'))
        return
    for i, on in enumerate(syms):
        blk = vals[i * M:(i + 1) * M]
        got = [p for p, b in enumerate(blk) if b]
        kind = sym_kind(on)
        if len(got) != 1:
            if v.new(f'HDD:not-one-ON:{kind}-symbol'):
                v.append((f'HDD:not-one-ON:{kind}-symbol',
                          f'M={M} symbols={syms} {how}: output symbol {i} has ON slots {got} (input ON slots {list(on)})'))
        elif kind == 'valid' and got[0] != on[0]:
            if v.new('HDD:valid-symbol-changed'):
                v.append(('HDD:valid-symbol-changed',
                          f'M={M} symbols={syms} {how}: symbol {i} had exactly one ON slot {on[0]}, output has {got[0]}'))
        elif kind == 'multi-ON' and got[0] not in on:
            if v.new('HDD:kept-slot-was-not-ON'):
                v.append(('HDD:kept-slot-was-not-ON',
                          f'M={M} symbols={syms} {how}: symbol {i} had ON slots {list(on)}, output keeps slot {got[0]}'))


def request_oracle(M, syms, dec, how, v):
    """the scripted RNG is asked to CHOOSE only among slots that were ON.
    A `choice` population is admissible when it is contained in the ON set of some symbol (indices relative to
    the symbol or absolute), or - only if the input has an empty symbol, which any slot may repair - in a
    slot range.  Anything else is a request to choose among slots that were not ON."""
    has_empty = any(len(on) == 0 for on in syms)
    for i, (fn, cands) in enumerate(dec):
        if fn != 'choice':
            continue
        c = set(cands)
        ok = False
        for s, on in enumerate(syms):
            if not on:
                continue
            if c <= set(on) or c <= {s * M + p for p in on}:
                ok = True
                break
        if not ok and has_empty and c <= set(range(len(syms) * M)):
            ok = True
        if not ok and not v.new('HDD:choice-among-slots-that-were-not-ON'):
            return
        if not ok:
            v.append(('HDD:choice-among-slots-that-were-not-ON',
                      f'M={M} symbols={syms} {how}: request #{i} np.random.choice({list(cands)[:40]}) offers slots that are '
                      f'not the ON slots of any symbol (ON sets {[list(o) for o in syms]})'))
            return


def explore_hdd(M, syms, max_dev, v):
    """stateless exploration of HDD's answer tree for one input pattern.
    returns (outcomes set, stats dict)."""
    x0 = syms_to_pattern(syms, M).astype(bool)
    queue = deque([((), None)])
    outcomes = set()
    leaves = nodes = edges = pruned = 0
    depth = 0
    while queue:
        prefix, expect = queue.popleft()
        rng = TreeRNG(prefix)
        outcome = call_hdd(x0.copy(), M, rng)
        dec = rng.dec
        L, D = len(prefix), len(dec)
        if expect is not None and (D < L or dec[L - 1] != expect):
            raise RuntimeError(f'answer tree is not deterministic at prefix {prefix}: {dec[L-1:L]} vs {expect}')
        leaves += 1
        nodes += D - L + 1
        edges += (D - L + 1) if L else D
        depth = max(depth, D)
        nv = len(v)
        hdd_outcome_oracle(M, syms, outcome, '@HOW@', v)
        request_oracle(M, syms, dec, '@HOW@', v)
        if len(v) > nv:     # describe the script only when something failed (keeps the per-leaf cost low)
            how = f'answers(index into candidates)={tuple(rng.answers)} decisions={[(f, list(c)[:16]) for f, c in dec][:12]}'
            v[nv:] = [(k, m.replace('@HOW@', how)) for k, m in v[nv:]]
        outcomes.add(bytes(outcome[1]) if outcome[0] == 'ok' and max(outcome[1], default=0) < 256 and min(outcome[1], default=0) >= 0
                     else repr(outcome[:2]).encode())
        ndev = sum(1 for a in prefix if a)
        ans = tuple(rng.answers)
        for i in range(L, D):
            nb = len(dec[i][1])
            if nb <= 1:
                continue
            if max_dev is not None and ndev + 1 > max_dev:
                pruned += nb - 1
                continue
            for a in range(1, nb):
                queue.append((ans[:i] + (a,), dec[i]))
    return outcomes, {'hdd_leaves': leaves, 'hdd_nodes': nodes, 'hdd_edges': edges, 'hdd_pruned_branches': pruned}


def hdd_case(case):
    """case = ('hdd', M, syms, max_dev, extras): syms = tuple of tuples of ON positions per symbol;
    max_dev None = full tree; extras: 'forms' -> container forms on the default script ('forms+': every dtype / element
    type / layout / write-protected variant as well) + the same object passed again under other answers,
    'real' -> real-RNG outcomes must be leaves of the explored tree"""
    _, M, syms, max_dev, extras = case
    syms = tuple(tuple(s) for s in syms)
    v = Viol()
    outcomes, st = explore_hdd(M, syms, max_dev, v)
    bits = syms_to_pattern(syms, M).tolist()
    if 'forms' in extras or 'forms+' in extras:
        first = None
        forms = container_forms(bits, 'all' if 'forms+' in extras else True, group=M)
        for name, obj in forms.items():
            snap = arg_snapshot(obj)
            oc = call_hdd(obj, M, TreeRNG(()))
            arg_modified('HDD', name, obj, snap, v)
            hdd_outcome_oracle(M, syms, oc, f'container form {name} = {obj!r:.120}, all answers = first candidate', v)
            # same slot sequence + same RNG answers => same result, whatever the container ("all accepted input container
            # types give the same result")
            if first is None:
                first = (name, oc)
            elif oc != first[1]:
                v.append((f'HDD:container-forms-differ:{form_family(name)}',
                          f'M={M} symbols={syms}, all answers = first candidate: form {name} = {obj!r:.120} gives {oc[1:]}, '
                          f'form {first[0]} gives {first[1][1:]}'))
            st['hdd_form_runs'] = st.get('hdd_form_runs', 0) + 1
        # the SAME object passed again under other RNG answers: the result must be the one a fresh copy of the pattern gives
        # under those answers (container clause + "all numpy seeds"); an HDD that repairs its argument in place pins the
        # second call to the first outcome
        fresh_last = call_hdd(np.array(bits, dtype=bool), M, TreeRNG(fill=-1))
        for name in HDD_REUSED_FORMS:
            obj = forms[name]           # already used once above (all answers = first candidate)
            for fill, want in ((-1, fresh_last), (0, first[1])):
                oc = call_hdd(obj, M, TreeRNG(fill=fill))
                if oc != want:
                    v.append((f'HDD:same-object-reused:{form_family(name)}',
                              f'M={M} symbols={syms}: call on a {name} object that HDD has seen before, all answers = '
                              f'{"last" if fill else "first"} candidate, gives {oc[1:]}; a fresh copy of the pattern gives {want[1:]}'))
                st['hdd_form_runs'] = st.get('hdd_form_runs', 0) + 1
    if 'real' in extras and max_dev is None:
        from opticomlib.ppm import HDD
        for seed in range(4):
            np.random.seed(seed)
            y = HDD(np.array(bits, dtype=bool), M)
            vals = as_int_list(data_of(y)[0])
            hdd_outcome_oracle(M, syms, ('ok', vals, type(y).__name__), f'real RNG np.random.seed({seed})', v)
            if bytes(vals) not in outcomes:
                raise RuntimeError(f'real-RNG outcome {vals} (seed {seed}) of M={M} symbols={syms} is not a leaf of the '
                                   f'explored answer tree: the scripted RNG does not cover the real one')
            st['hdd_real_runs'] = st.get('hdd_real_runs', 0) + 1
    ndec = any(sym_kind(s) != 'valid' for s in syms)
    st['hdd_patterns'] = 1
    st['hdd_patterns_multi_outcome'] = int(len(outcomes) > 1)
    st['hdd_distinct_outcomes'] = len(outcomes)
    return res(viol=_dedup(v), obs=(M, syms, max_dev, len(outcomes), zlib.crc32(b'|'.join(sorted(outcomes)))),
               nontrivial=(M, syms) if ndec else False, stats=st)


def hdd_real_case(case):
    """real-RNG conformance: case = ('hddreal', M, nslots, density, rng_seed, field_seed); density: probability of an ON
    slot (0.0 = silent record, 1.0 = every slot ON) or 'balanced' (total ON count = symbol count, empty and multi-ON symbols)"""
    from opticomlib.ppm import HDD
    _, M, nslots, dens, rseed, fseed = case
    rs = np.random.RandomState(zlib.crc32(repr(('hddreal', M, nslots, dens, fseed)).encode()))
    if dens == 'balanced':
        # as many ON slots as symbols, but not one each: every second symbol is emptied and its ON slot (or one more) is given
        # to the next symbol - an HDD that looks at the TOTAL ON count sees nothing to repair
        n = nslots // M
        x = np.zeros((n, M), dtype=bool)
        x[np.arange(n), rs.randint(0, M, n)] = True
        for i in range(0, n - 1, 2):
            if rs.randint(4):
                x[i] = False
                off = np.flatnonzero(~x[i + 1])
                x[i + 1, off[rs.randint(off.size)]] = True
        x = x.reshape(-1)
    else:
        x = rs.random_sample(nslots) < dens
    syms = tuple(tuple(np.flatnonzero(r).tolist()) for r in x.reshape(-1, M))
    v = Viol()
    # run A: real generator, requests and answers recorded by transparent wrappers
    rec = []
    real_randint, real_choice = np.random.randint, np.random.choice

    def w_randint(*a, **k):
        r = real_randint(*a, **k)
        rec.append(('randint', a, k.get('size'), r))
        return r

    def w_choice(a, *b, **k):
        r = real_choice(a, *b, **k)
        rec.append(('choice', np.asarray(a).tolist(), k.get('size'), r))
        return r

    np.random.seed(rseed)
    np.random.randint, np.random.choice = w_randint, w_choice
    try:
        yA = HDD(x.copy(), M)
    finally:
        np.random.randint, np.random.choice = real_randint, real_choice
    a = as_int_list(data_of(yA)[0])
    hdd_outcome_oracle(M, syms, ('ok', a, type(yA).__name__), f'real RNG np.random.seed({rseed})', v)
    # run B: same seed, no wrappers (the wrappers are transparent and the seed owns the generator)
    np.random.seed(rseed)
    b = as_int_list(data_of(HDD(x.copy(), M))[0])
    if a != b:
        raise RuntimeError('HDD differs between two runs with the same np.random.seed: RNG not owned')
    # run C: scripted RNG answering with the values the real generator gave -> identical output, identical requests
    values = []
    for fn, arg, size, r in rec:
        if size is not None:
            values += np.asarray(r).ravel().tolist()
        else:
            values.append(int(r))
    rng = TreeRNG(values=values)
    oc = call_hdd(x.copy(), M, rng)
    if oc[0] != 'ok' or oc[1] != a or len(rng.dec) != len(values):
        raise RuntimeError(f'scripted replay of the real RNG answers does not reproduce the real run (M={M}, seed={rseed}): '
                           f'{oc[:2] if oc[0] != "ok" else "output differs"}')
    request_oracle(M, syms, rng.dec, f'real RNG np.random.seed({rseed})', v)
    nreq = len(values)
    return res(viol=_dedup(v), obs=(M, nslots, dens, rseed, zlib.crc32(bytes(a)), nreq),
               nontrivial=(M, dens, rseed, fseed) if nreq else False,
               stats={'hddreal_requests': nreq, 'hddreal_runs': 3})


# =========================================================================== part 3: SDD
def sdd_forms(x, with_noise=True):
    from opticomlib.typing import electrical_signal
    f = {'ndarray': np.array(x), 'electrical_signal': electrical_signal(np.array(x))}
    if with_noise:
        f['electrical_signal+zero-noise'] = electrical_signal(np.array(x), np.zeros(len(x)))
    return f


def check_sdd_output(y, expected, M, what, key, v):
    a, tname = data_of(y)
    vals = as_int_list(a)
    if tname != 'binary_sequence':
        v.append(('SDD:return-type', f'SDD returned {tname}'))
    if len(vals) != len(expected):
        v.append(('SDD:length', f'{what}: output has {len(vals)} slots, expected {len(expected)}'))
        return vals
    if vals != list(expected):
        n = len(expected) // M
        bad = [i for i in range(n) if vals[i * M:(i + 1) * M] != list(expected[i * M:(i + 1) * M])]
        i = bad[0]
        if sum(vals[i * M:(i + 1) * M]) != 1:
            v.append(('SDD:not-one-ON', f'{what}: symbol {i} of the output = {vals[i*M:(i+1)*M][:64]}'))
        else:
            v.append((key, f'{what}: symbol {i}: output ON slot {vals[i*M:(i+1)*M].index(1)}, expected '
                           f'{list(expected[i*M:(i+1)*M]).index(1)} ({len(bad)} of {n} symbols differ)'))
    return vals


def sdd_dac_case(case):
    """case = ('sdddac', M, sps, shape, syms): syms = ON position per symbol of a valid codeword"""
    from opticomlib.devices import DAC
    from opticomlib.ppm import SDD, PPM_ENCODER, PPM_DECODER
    _, M, sps, shape, syms = case
    gv_reset(sps=sps, R=1e9)
    bits = syms_to_bits(syms, M)
    _, cw = ref_encode(bits, M)
    v = Viol()
    x = DAC(np.array(cw, dtype=np.uint8), pulse_shape=shape)
    sig = np.asarray(x.signal)
    obs = []
    forms = {'electrical_signal(DAC output)': x, 'ndarray': np.array(sig)}
    from opticomlib.typing import electrical_signal
    forms['electrical_signal+zero-noise'] = electrical_signal(np.array(sig), np.zeros(sig.size))
    for name, obj in forms.items():
        y = SDD(obj, M)
        obs.append(tuple(check_sdd_output(y, cw, M, f'M={M} sps={sps} shape={shape} codeword ON positions={syms} input form={name}',
                                          f'SDD:not-identity-on-DAC(codeword):{shape}', v)))
    # the chain the receiver uses: DEC(SDD(DAC(ENC(b)))) == b
    enc = PPM_ENCODER(np.array(bits, dtype=np.uint8), M)
    soft = SDD(DAC(enc, pulse_shape=shape), M)
    rx = PPM_DECODER(soft, M)
    got = as_int_list(data_of(rx)[0])
    if got != bits:
        v.append((f'CHAIN:DEC(SDD(DAC(ENC(b))))!=b:{shape}', f'M={M} sps={sps} shape={shape} b={bits}: got {got}'))
    obs.append(tuple(got))
    # SDD's own output object through HDD: a valid codeword, so HDD is the identity on it whatever the RNG answers
    oc = call_hdd(soft, M, TreeRNG(fill=-1))
    if oc[:2] != ('ok', cw):
        v.append(('CHAIN:HDD(SDD(DAC(codeword)))!=codeword', f'M={M} sps={sps} shape={shape} codeword ON positions={syms}: got {oc[1]!r:.300}'))
    gv_reset()
    return res(viol=_dedup(v), obs=(M, sps, shape, tuple(obs)), nontrivial=(M, sps, shape, syms), stats={'sdd_calls': 4})


def _rank_ok(sum1, sum2, M, margin):
    """per symbol: unique maximum, by a margin, and the same slot for both readings of 'integrated energy'"""
    a1 = sum1.reshape(-1, M)
    a2 = sum2.reshape(-1, M)
    i1 = a1.argmax(axis=1)
    i2 = a2.argmax(axis=1)
    s1 = np.sort(a1, axis=1)
    s2 = np.sort(a2, axis=1)
    ok = (i1 == i2) & (s1[:, -1] - s1[:, -2] > margin) & (s2[:, -1] - s2[:, -2] > 0)
    return ok, i1


def sdd_argmax_case(case):
    """case = ('sddarg', M, sps, nsym, family, k, seed): seeded field of slot energies without ties.
    families: 'amp'  = distinct non-negative integer amplitude per slot x one fixed non-negative pulse,
              'free' = free non-negative integer samples (sums exact in float64),
              'real' = free non-negative float samples, winner ahead by more than the summation rounding bound,
              'signed' = free signed integer samples (M <= 8).
    A symbol is kept only if the slot with the largest sum(x) is also the slot with the largest sum(x^2)
    (the statement's 'integrated energy' is decided the same way by both readings); otherwise it is redrawn."""
    from opticomlib.ppm import SDD
    _, M, sps, nsym, family, k, seed = case
    gv_reset(sps=sps, R=1e9)
    rs = np.random.RandomState(zlib.crc32(repr(('sddarg', M, sps, nsym, family, k, seed)).encode()))
    rows = []
    redraw = 0
    eps = np.finfo(float).eps
    while len(rows) < nsym:
        need = nsym - len(rows)
        if family == 'amp':
            pulse = rs.randint(0, 8, sps).astype(float)
            pulse[rs.randint(sps)] += 1.0
            amp = np.array([rs.permutation(4 * M)[:M] for _ in range(need)], dtype=float)     # distinct per symbol
            blk = amp[:, :, None] * pulse[None, None, :]
        elif family == 'free':
            blk = rs.randint(0, 1001, (need, M, sps)).astype(float)
        elif family == 'signed':
            # bipolar / DC-blocked waveforms: signed integer samples. Kept symbols still have the same winner under sum(x) and
            # sum(x^2); what they separate is the slot of largest sum from the slot of largest |sum|.
            blk = rs.randint(-1000, 1001, (need * 4, M, sps)).astype(float)
        else:
            blk = rs.random_sample((need, M, sps)) * rs.choice([1e-3, 1.0, 1e3])
        s1 = blk.sum(axis=2)
        s2 = (blk ** 2).sum(axis=2)
        margin = 0.0 if family != 'real' else 8 * sps * eps * np.abs(blk).sum(axis=2).max()
        ok, _ = _rank_ok(s1.ravel(), s2.ravel(), M, margin)
        for j in np.flatnonzero(ok):
            rows.append(blk[j])
        redraw += int((~ok).sum())
        if redraw > (50 if family != 'signed' else 4000) * nsym + 1000:
            raise RuntimeError('cannot draw tie-free energies')
    blk = np.array(rows[:nsym])
    x = blk.reshape(-1)
    win = blk.sum(axis=2).argmax(axis=1)
    expected = [0] * (nsym * M)
    for i, w in enumerate(win):
        expected[i * M + int(w)] = 1
    v = Viol()
    obs = []
    for name, obj in sdd_forms(x).items():
        y = SDD(obj, M)
        obs.append(zlib.crc32(bytes(check_sdd_output(y, expected, M, f'M={M} sps={sps} nsym={nsym} family={family} field={k} form={name}',
                                                     f'SDD:not-argmax:{family}', v))))
    gv_reset()
    return res(viol=_dedup(v), obs=(M, sps, nsym, family, k, tuple(obs), tuple(win.tolist()[:32])),
               nontrivial=(M, sps, family, k), stats={'sdd_calls': 3, 'sdd_symbols': nsym, 'sdd_redrawn_symbols': redraw})


def sdd_perm_case(case):
    """case = ('sddperm', M, sps, perm): one symbol whose slot amplitudes are the permutation `perm` of 1..M (x flat pulse)"""
    from opticomlib.ppm import SDD
    _, M, sps, perm = case
    gv_reset(sps=sps, R=1e9)
    x = np.kron(np.array(perm, dtype=float), np.ones(sps))
    expected = [0] * M
    expected[list(perm).index(M)] = 1
    v = Viol()
    y = SDD(x, M)
    vals = check_sdd_output(y, expected, M, f'M={M} sps={sps} slot amplitudes={perm}', 'SDD:not-argmax:perm', v)
    gv_reset()
    return res(viol=_dedup(v), obs=(M, sps, perm, tuple(vals)), nontrivial=(M, sps, perm), stats={'sdd_calls': 1})


def sdd_tie_case(case):
    """case = ('sddtie', M, sps, levels): EVERY assignment of slot energies from a small integer alphabet (so maxima tie,
    including the silent all-zero symbol) for one symbol, preceded and followed by a plain valid symbol.  With tied maxima
    the statement leaves open WHICH of the largest slots is turned ON, but the output must still be a valid codeword:
    exactly one ON slot per symbol, on a slot that attains the largest integrated energy."""
    from opticomlib.ppm import SDD
    _, M, sps, levels = case
    gv_reset(sps=sps, R=1e9)
    v = Viol()
    obs = []
    n = 0
    for amp in itertools.product(levels, repeat=M):
        sym = [1.0] + [0.0] * (M - 1)
        slots = np.array(sym + list(amp) + sym[::-1], dtype=float)
        x = np.kron(slots, np.ones(sps))
        for form, obj in sdd_forms(x, with_noise=False).items():
            y = SDD(obj, M)
            n += 1
            a, tname = data_of(y)
            vals = as_int_list(a)
            if len(vals) != 3 * M:
                v.append(('SDD:length', f'M={M} sps={sps} energies={amp}: output has {len(vals)} slots'))
                continue
            for k in range(3):
                blk = vals[k * M:(k + 1) * M]
                en = list(slots[k * M:(k + 1) * M])
                if sum(blk) != 1:
                    v.append(('SDD:not-one-ON:tied-energies', f'M={M} sps={sps} {form}: symbol with slot energies {en} decoded as {blk} ({sum(blk)} ON slots)'))
                elif en[blk.index(1)] != max(en):
                    v.append(('SDD:not-argmax:tied-energies', f'M={M} sps={sps} {form}: symbol with slot energies {en} decoded as {blk}'))
            obs.append(tuple(vals))
    gv_reset()
    return res(viol=_dedup(v), obs=tuple(obs), nontrivial=(M, sps, levels), stats={'sdd_calls': n})


# =========================================================================== hardening pass: generic SDD oracle and input classes
def sdd_decided(total, M, sps, eps):
    """total: the waveform SDD is given (signal + noise), exact sample values as float64 / complex128.
    Returns (winner per symbol, decided mask).  A symbol is DECIDED when every reading of "integrated energy of a slot" the
    statement admits selects the same slot, uniquely, and by more than the rounding bound of a length-sps sum in the
    dtype the library sums in (8*sps*eps*sum|terms|; eps = 0 when the sums are exact):
        real waveform:     sum(x), sum(x^2)
        complex waveform:  sum(Re x), sum(|x|^2), |sum(x)|   (what 'energy' means for a complex record is left open by the
                           statement: only symbols on which all three agree are asserted)
    Undecided symbols (ties, readings disagree) are only required to carry exactly one ON slot."""
    blk = total.reshape(-1, M, sps)
    if np.iscomplexobj(blk):
        mag = np.abs(blk)
        readings = [(blk.real.sum(axis=2), np.abs(blk.real).sum(axis=2)), ((mag ** 2).sum(axis=2), (mag ** 2).sum(axis=2)),
                    (np.abs(blk.sum(axis=2)), mag.sum(axis=2))]
    else:
        readings = [(blk.sum(axis=2), np.abs(blk).sum(axis=2)), ((blk ** 2).sum(axis=2), (blk ** 2).sum(axis=2))]
    win = readings[0][0].argmax(axis=1)
    ok = np.ones(win.size, dtype=bool)
    for r, mass in readings:
        if M > 1:
            srt = np.sort(r, axis=1)
            ok &= (r.argmax(axis=1) == win) & (srt[:, -1] - srt[:, -2] > 8 * sps * eps * mass.max(axis=1))
    return win, ok


def summation_eps(total, lib_dtype, sps):
    """0 if a length-sps sum of these samples is exact in the dtype the library sums in (integer dtypes: numpy sums them in
    a 64-bit integer; float dtypes: integer-valued samples whose slot sums stay below 2^mantissa), else that dtype's eps"""
    dt = np.dtype(lib_dtype)
    if dt.kind in 'biu':
        return 0.0
    fin = np.finfo(dt)
    parts = [total.real, total.imag] if np.iscomplexobj(total) else [total]
    if all(np.all(p == np.round(p)) and np.abs(p).max(initial=0) * sps < 2.0 ** fin.nmant for p in parts):
        return 0.0
    return float(fin.eps)


def check_sdd_general(y, total, M, sps, eps, what, key, v):
    """the SDD clauses on an arbitrary waveform; returns (output values, number of decided symbols)"""
    n = total.size // (M * sps)
    a, tname = data_of(y)
    a = np.asarray(a).ravel()
    vals = a.astype(np.int64)
    if (a != vals).any():
        v.append(('SDD:non-binary', f'{what}: output {a[:32].tolist()}'))
        return vals, 0
    if tname != 'binary_sequence':
        v.append(('SDD:return-type', f'SDD returned {tname}'))
    if vals.size != n * M:
        v.append(('SDD:length', f'{what}: output has {vals.size} slots, expected {n}*{M}'))
        return vals, 0
    if ((vals != 0) & (vals != 1)).any():
        v.append(('SDD:non-binary', f'{what}: output {vals[:32].tolist()}'))
        return vals, 0
    rows = vals.reshape(n, M)
    bad = np.flatnonzero(rows.sum(axis=1) != 1)
    if bad.size:
        v.append(('SDD:not-one-ON', f'{what}: symbol {bad[0]} of the output = {rows[bad[0]][:64].tolist()} ({bad.size} of {n} symbols)'))
        return vals, 0
    win, ok = sdd_decided(total, M, sps, eps)
    got = rows.argmax(axis=1)
    bad = np.flatnonzero(ok & (got != win))
    if bad.size:
        i = bad[0]
        v.append((key, f'{what}: symbol {i}: output ON slot {got[i]}, the slot of largest integrated energy is {win[i]} '
                       f'(slot sums {total.reshape(n, M, sps)[i].sum(axis=1)[:16].tolist()}; {bad.size} of {int(ok.sum())} decided symbols differ)'))
    return vals, int(ok.sum())


SDD_DTYPES = ('float64', 'bool', 'int8', 'uint8', 'int16', 'int32', 'int64', 'uint64', 'float16', 'float32', 'complex64', 'complex128',
              'complex64:imag', 'complex128:imag', 'float16:full-scale')
SDD_LAYOUTS = ('ndarray', 'list', 'tuple', 'ndarray:write-protected', 'ndarray:strided-view', 'electrical_signal',
               'electrical_signal:write-protected', 'electrical_signal+zeros', 'electrical_signal+zeros:float32',
               'electrical_signal+split:same', 'electrical_signal+split:float32', 'electrical_signal+split:int16',
               'electrical_signal+split:complex64', 'electrical_signal+zero-sum-split', 'electrical_signal+split:full-scale')
SDD_SCALES = (1.0, 1e-12, 1e-9, 1e-6, 1e6, 'offset')


FULL_SCALE_INTS = ('int8', 'uint8', 'int16', 'int32')     # 64-bit sums are beyond exact float64 arithmetic: outside


def sdd_variant_exists(dtype, layout, scale):
    base = dtype.split(':')[0]
    kind = np.dtype(base).kind
    if layout.endswith('full-scale'):
        return dtype in FULL_SCALE_INTS and scale == 1.0
    if dtype.endswith('full-scale'):
        return scale == 1.0 and '+split' not in layout and '+zero-sum' not in layout
    if scale != 1.0:
        if scale == 'offset':
            return kind in 'fc' and base != 'float16' or base in ('int32', 'int64', 'uint64')
        return kind in 'fc' and base != 'float16'         # a float16 record has no room for 1e-12 ... 1e6
    if '+split' in layout or '+zero-sum' in layout:
        if kind == 'b':
            return False                                    # bool + bool is a logical OR: no additive total field
        if 'zero-sum' in layout and kind == 'u':
            return False                                    # needs negative noise samples
    return True


def build_sdd_input(M, sps, nsym, dtype, layout, scale, rs):
    """-> (object for SDD, total waveform as float64/complex128 exact values, dtype the library sums in).
    The total is an integer field 0..100 (0/1 for bool; + j*(-30..30) for ':imag'), times `scale` or plus a 1e6 offset.
    '+split:<dt>': the field is split into a signal and a noise component 0 <= n <= total of dtype <dt> (both parts
    representable in every dtype used, so signal + noise is the field exactly; the winner of either part alone differs from
    the winner of the sum on most symbols).  '+zero-sum-split': noise sums to zero over the record, not per slot.
    Narrow sample dtypes at full scale (policy: sample data in any integer / narrow dtype is inside the statement, wrap-around
    or overflow there is a finding): '+split:full-scale' - an integer signal and an integer noise of the same dtype, each up to
    3/4 of the dtype's maximum, so that signal + noise leaves the dtype on most samples (total = the exact integer sum);
    'float16:full-scale' - float16 samples 0, 8192, ... 57344 whose slot sums exceed the float16 range from sps = 2 on."""
    from opticomlib.typing import electrical_signal
    base = dtype.split(':')[0]
    dt = np.dtype(base)
    N = nsym * M * sps
    field = rs.randint(0, 2 if dt.kind == 'b' else 101, N).astype(np.int64)
    if dtype == 'float16:full-scale':
        field = 8192 * rs.randint(0, 8, N).astype(np.int64)
    cfield = field.astype(complex) + 1j * rs.randint(-30, 31, N) if dtype.endswith(':imag') else None

    def cast(a, to=dt, dc=True):
        if cfield is not None and a is field:
            a = cfield
        if scale == 'offset':
            a = a + (1e6 if dc else 0.0)
        elif scale != 1.0:
            a = a * scale
        return np.asarray(a).astype(to)

    kind, _, ndt = layout.partition('+')
    noise = None
    exact_total = None
    if ndt == 'split:full-scale':
        top = int(np.iinfo(dt).max) * 3 // 4
        sig, noise = rs.randint(0, top + 1, N).astype(dt), rs.randint(0, top + 1, N).astype(dt)
        exact_total = sig.astype(np.int64) + noise.astype(np.int64)
    elif ndt.startswith('split') or ndt == 'zero-sum-split':
        if ndt == 'zero-sum-split':
            h = rs.randint(-20, 21, N // 2)
            nint = np.concatenate([h, -h, np.zeros(N - 2 * (N // 2), dtype=np.int64)])
        else:
            nint = (rs.random_sample(N) * (field + 1)).astype(np.int64)           # 0 <= n <= field
        ndtype = dt if ndt in ('split:same', 'zero-sum-split') else np.dtype(ndt.split(':')[1])
        sig, noise = cast((cfield if cfield is not None else field) - nint), cast(nint, ndtype, dc=False)
    else:
        sig = cast(field)
        if ndt.startswith('zeros'):
            noise = np.zeros(N, dtype=dt if ndt == 'zeros' else np.dtype(ndt.split(':')[1]))
    if kind.startswith('electrical_signal'):
        obj = electrical_signal(sig.copy(), None if noise is None else noise.copy())
        tot = obj.signal if obj.noise is None else obj.signal + obj.noise      # the library's own total field (C01): exact here
        if noise is not None and not np.array_equal(tot, sig.astype(tot.dtype) + noise.astype(tot.dtype)):
            raise RuntimeError('electrical_signal does not hold the samples it was given')
        lib_dtype = tot.dtype
        if exact_total is not None:
            if not (np.array_equal(obj.signal, sig) and np.array_equal(obj.noise, noise)):
                raise RuntimeError('electrical_signal does not hold the samples it was given')
            tot = exact_total                                                  # the sum of the samples, not its wrap-around in the dtype
        if kind.endswith('write-protected'):
            for a in (obj.signal, obj.noise):
                if a is not None:
                    a.flags.writeable = False
    else:
        tot = sig
        if kind == 'list':
            obj = sig.tolist()
        elif kind == 'tuple':
            obj = tuple(sig.tolist())
        elif kind == 'ndarray:strided-view':
            obj = np.repeat(sig, 2)[::2]
        else:
            obj = sig.copy()
            if kind.endswith('write-protected'):
                obj.flags.writeable = False
        lib_dtype = np.asarray(obj).dtype
    total = np.asarray(tot).astype(complex if np.iscomplexobj(tot) else float)
    return obj, total, lib_dtype


def sdd_general_case(case):
    """case = ('sddgen', M, sps, nsym, dtype, layout, scale, seed): one waveform class (sample dtype x container / noise layout
    x scale) through the generic SDD oracle; the object is passed twice and must come back unchanged"""
    import warnings
    from opticomlib.ppm import SDD
    _, M, sps, nsym, dtype, layout, scale, seed = case
    gv_reset(sps=sps, R=1e9)
    rs = np.random.RandomState(zlib.crc32(repr(case).encode()))
    obj, total, lib_dtype = build_sdd_input(M, sps, nsym, dtype, layout, scale, rs)
    v = Viol()
    what = f'M={M} sps={sps} nsym={nsym} samples={dtype} layout={layout} scale={scale}'
    snap = arg_snapshot(obj)
    with warnings.catch_warnings():
        warnings.simplefilter('ignore')           # numpy announces a float16 overflow with a RuntimeWarning
        y = SDD(obj, M)
        again = np.asarray(as_int_list(data_of(SDD(obj, M))[0]))
    arg_modified('SDD', layout, obj, snap, v)
    if dtype == 'float16:full-scale' and np.dtype(lib_dtype) == np.float16:
        lib_dtype = np.float32          # slot sums beyond the float16 range: single precision is the least an accumulator needs
    vals, ndec = check_sdd_general(y, total, M, sps, summation_eps(total, lib_dtype, sps), what,
                                   'SDD:not-argmax:' + ('integer-signal+noise-leaves-dtype' if layout.endswith('full-scale') else
                                                        'float16-slot-sum-overflows' if dtype.endswith('full-scale') else
                                                        'noisy-signal' if '+split' in layout or '+zero-sum' in layout else
                                                        'complex-samples' if dtype.endswith(':imag') else
                                                        'scaled-samples' if scale != 1.0 else 'sample-dtype-or-container'), v)
    if again.size != vals.size or (again != vals).any():
        v.append(('SDD:same-object-reused', f'{what}: the second SDD call on the same object differs from the first'))
    gv_reset()
    return res(viol=_dedup(v), obs=(case[1:7], zlib.crc32(vals.tobytes())), nontrivial=case[1:7] if ndec else False,
               stats={'sdd_calls': 2, 'sdd_symbols': nsym, 'sdd_undecided_symbols': nsym - ndec})


# gv configurations for the call-history part: every documented way of fixing the grid (sps,R) (sps,fs) (R,fs), integer and
# non-integer fs/R, fs alone (sps then follows from the R in force), a slot count N, another wavelength, sps = 1, a numpy sps.
# SDD must use the sps IN FORCE at the call: read back from gv after each configuration (C14 checks gv itself).
GV_MENU = (('sps=16,R', dict(sps=16, R=1e9)), ('sps=2,fs', dict(sps=2, fs=10e9)), ('R,fs->4', dict(R=2.5e9, fs=10e9)),
           ('R,fs non-integer ratio', dict(R=1e9, fs=5.5e9)), ('sps=1,R', dict(sps=1, R=1e9)), ('fs alone', dict(fs=20e9)),
           ('sps=8,R,N=64', dict(sps=8, R=1e9, N=64)), ('sps=5,R,1310nm', dict(sps=5, R=10e9, wavelength=1310e-9)),
           ('sps=3,R', dict(sps=3, R=1e9)), ('sps=np.int64(4),R', dict(sps=np.int64(4), R=1e9)))
SEQ_LEN = 20480          # 2^12 * 5: whole symbols for every order <= 256 at sps 1, 2, 4, 5, 8, 16, 20; never for sps 3 or 6


def sdd_gv_sequence_case(case):
    """case = ('sddseq', (i, j, ...), layout, orders, seed): gv configured by GV_MENU[i], then [j], ... WITHOUT cleaning in
    between; after every configuration SDD runs on ONE shared input object for every order of `orders`.  Expected from the
    sps gv reports at that moment: the generic oracle if the record is a whole number of symbols, else ValueError."""
    import warnings
    from opticomlib.ppm import SDD
    from opticomlib.typing import gv
    _, steps, layout, orders, seed = case
    gv_reset()
    rs = np.random.RandomState(zlib.crc32(repr(('sddseq', layout, seed)).encode()))
    obj, total, lib_dtype = build_sdd_input(1, 1, SEQ_LEN, 'float64', layout, 1.0, rs)
    snap = arg_snapshot(obj)
    v = Viol()
    obs = []
    ncalls = 0
    for pos, i in enumerate(steps):
        with warnings.catch_warnings():
            warnings.simplefilter('ignore')
            gv(**GV_MENU[i][1])
        sps = gv.sps
        if sps != int(sps) or int(sps) < 1:
            raise RuntimeError(f'gv.sps = {sps!r} after {GV_MENU[i][0]}')
        sps = int(sps)
        for M in orders:
            what = f'gv history {[GV_MENU[k][0] for k in steps[:pos + 1]]} (gv.sps={sps}), M={M}, shared {layout} of {SEQ_LEN} samples'
            ncalls += 1
            try:
                y = SDD(obj, M)
            except ValueError as e:
                if SEQ_LEN % (M * sps) == 0:
                    v.append(('SDD:raises:ValueError:after-gv-reconfiguration', f'{what}: {e}'))
                obs.append('VE')
                continue
            if SEQ_LEN % (M * sps):
                v.append(('VE:SDD:length-not-whole-symbols:accepted', f'{what}: returned instead of raising ValueError'))
                obs.append('ret')
                continue
            vals, _ = check_sdd_general(y, total, M, sps, 0.0, what, 'SDD:not-argmax:after-gv-reconfiguration', v)
            obs.append(zlib.crc32(vals.tobytes()))
    arg_modified('SDD', layout, obj, snap, v)
    gv_reset()
    return res(viol=_dedup(v), obs=(steps, layout, tuple(obs)), nontrivial=(steps, layout), stats={'sdd_calls': ncalls})


# ---- the order given as something other than a Python int
# Policy (HARDEN_BRIEF): scalar parameters are enumerated as Python int, np.int64, np.int32 and 0-d arrays of those (must equal
# the Python-int result) and by keyword.  Float-valued orders (float, np.float64, np.float32, 0-d float64: `8.0`) are not ints:
# the statement is silent - a rejection (TypeError / ValueError) or the result for the int is accepted, never another result.
# Unsigned and 8/16-bit numpy scalars and np.float16 are OUTSIDE the statements: run and recorded in the observation, nothing asserted.
M_FORMS_EQUAL = ('keyword M=', 'keywords input=, M=', 'np.int64', 'np.int32', 'np.intp', '0d:int64', '0d:int32')
M_FORMS_EITHER = ('float', 'np.float64', 'np.float32', '0d:float64')
M_FORMS_OBSERVED = ('np.int8', 'np.uint8', 'np.int16', 'np.uint16', 'np.uint32', 'np.uint64', '0d:uint8', '0d:uint64', 'np.float16')


def make_order(M, form):
    if form.startswith('keyword'):
        return M                      # a call form, not a type: the order is passed by name (SDD(x, M=4) as in the docstrings)
    if form == 'float':
        return float(M)
    kind, name = form.split(':') if ':' in form else ('np', form[3:])
    dt = np.dtype(name)
    if dt.kind in 'iu' and M > np.iinfo(dt).max:
        return None
    return np.array(M, dtype=dt) if kind == '0d' else dt.type(M)


def order_form_case(case):
    """case = ('mform', M, form, seed): all four functions with the order given as numpy scalar / 0-d array / float-valued;
    the result must be the one for the Python int (the int results themselves are checked by all other parts)"""
    from opticomlib.ppm import PPM_ENCODER, PPM_DECODER, SDD
    _, M, form, seed = case
    Mobj = make_order(M, form)
    k = log2i(M)
    rs = np.random.RandomState(zlib.crc32(repr(case).encode()))
    nsym = 300 if M <= 16 else 40            # > 255 symbols / > 2^16 slots for the large orders: sizes a narrow order dtype cannot hold
    if M == 256:
        nsym = 260
    bits = rs.randint(0, 2, nsym * k + k - 1).tolist()
    _, cw = ref_encode(bits, M)
    kinds = symbol_kinds(M)
    syms = tuple(kinds[j] for j in rs.randint(0, len(kinds), 6)) + ((), tuple(range(M)))
    pattern = syms_to_pattern(syms, M).astype(bool)
    sps = 2
    wave, total, lib_dtype = build_sdd_input(M, sps, 16, 'float64', 'ndarray', 1.0, rs)
    v = Viol()
    obs = []

    def run(fn, f):
        if fn == 'SDD':
            gv_reset(sps=sps, R=1e9)
        try:
            return ('ok', f())
        except Exception as e:  # noqa - compared below
            return ('exc', type(e).__name__, str(e)[:120])

    def by_form(fn):
        """the library function, called the way `form` says"""
        if form == 'keyword M=':
            return lambda x, m: fn(x, M=m)
        if form == 'keywords input=, M=':
            return lambda x, m: fn(M=m, input=x)
        return fn

    def calls(g):
        from opticomlib.ppm import HDD
        return (('ENC', lambda m: as_int_list(data_of(g(PPM_ENCODER)(np.array(bits, dtype=np.uint8), m))[0])),
                ('DEC', lambda m: as_int_list(data_of(g(PPM_DECODER)(np.array(cw, dtype=np.uint8), m))[0])),
                ('HDD', lambda m: call_hdd(pattern.copy(), m, TreeRNG(fill=-1), fn=g(HDD))),
                ('SDD', lambda m: as_int_list(data_of(g(SDD)(wave, m))[0])))

    for (fn, plain), (_, formed) in zip(calls(lambda f: f), calls(by_form)):
        want = run(fn, lambda: plain(M))
        got = run(fn, lambda: formed(Mobj))
        if fn == 'HDD' and got[0] == 'ok' and got[1][0] == 'exc':
            got = got[1]
        obs.append(zlib.crc32(repr(got).encode()))
        if got == want or form in M_FORMS_OBSERVED:
            continue
        if got[0] == 'exc':
            if form in M_FORMS_EITHER and got[1] in ('TypeError', 'ValueError'):
                continue
            v.append((f'M-form:{fn}:raises:{got[1]}', f'{fn}(..., M={Mobj!r} <{form}>) raised {got[1]}: {got[2]}; M={M} (int) works'))
        else:
            v.append((f'M-form:{fn}:result-differs-from-int-order', f'{fn}(..., M={Mobj!r} <{form}>) differs from the result for M={M} (int): '
                                                                    f'{str(got[1])[:200]} vs {str(want[1])[:200]}'))
    gv_reset()
    return res(viol=_dedup(v), obs=(M, form, tuple(obs)), nontrivial=(M, form) if form not in M_FORMS_OBSERVED else False,
               stats={'mform_calls': 8})


# ---- degenerate inputs: zero symbols
def degenerate_case(case):
    """case = ('empty', fn, M, form): a record of zero symbols (a whole number of symbols).  The statement's clauses are
    vacuous on it; asserted is only that the call returns the empty sequence or rejects the input with ValueError."""
    from opticomlib.ppm import PPM_ENCODER, PPM_DECODER, HDD, SDD
    _, fn, M, form = case
    gv_reset(sps=2, R=1e9)
    obj = {'list': [], 'tuple': (), 'ndarray:bool': np.zeros(0, dtype=bool), 'ndarray:float64': np.zeros(0)}[form]
    v = Viol()
    try:
        y = {'ENC': PPM_ENCODER, 'DEC': PPM_DECODER, 'HDD': HDD, 'SDD': SDD}[fn](obj, M)
        out = as_int_list(data_of(y)[0])
        if out:
            v.append((f'{fn}:zero-symbols:non-empty-output', f'{fn}(<empty {form}>, {M}) returned {out[:32]}'))
    except ValueError:
        out = 'ValueError'
    gv_reset()
    return res(viol=v, obs=(fn, M, form, repr(out)), nontrivial=False)


# ---- very long records (index arithmetic beyond 2^16 slots / symbols)
def ref_positions(bits, M):
    """big-endian value of every whole block of log2 M bits (numpy, integer arithmetic only)"""
    k = log2i(M)
    n = len(bits) // k
    b = np.asarray(bits[:n * k], dtype=np.int64).reshape(n, k)
    val = np.zeros(n, dtype=np.int64)
    for j in range(k):
        val = 2 * val + b[:, j]
    return val


def hdd_rows_oracle(M, x, out, how, v):
    """the HDD clauses, vectorised: x, out boolean arrays of whole symbols"""
    a, b = x.reshape(-1, M), out.reshape(-1, M)
    cin = a.sum(axis=1)
    bad = np.flatnonzero(b.sum(axis=1) != 1)
    if bad.size:
        i = bad[0]
        v.append((f'HDD:not-one-ON:{sym_kind(np.flatnonzero(a[i]))}-symbol', f'{how}: output symbol {i} has ON slots '
                  f'{np.flatnonzero(b[i]).tolist()[:16]} (input ON slots {np.flatnonzero(a[i]).tolist()[:16]}); {bad.size} symbols'))
        return
    bad = np.flatnonzero((cin == 1) & (a != b).any(axis=1))
    if bad.size:
        v.append(('HDD:valid-symbol-changed', f'{how}: symbol {bad[0]} had exactly one ON slot {np.flatnonzero(a[bad[0]]).tolist()}, '
                                              f'output has {np.flatnonzero(b[bad[0]]).tolist()}; {bad.size} symbols'))
    bad = np.flatnonzero((cin > 1) & (b & ~a).any(axis=1))
    if bad.size:
        v.append(('HDD:kept-slot-was-not-ON', f'{how}: symbol {bad[0]} had ON slots {np.flatnonzero(a[bad[0]]).tolist()[:16]}, output keeps '
                                              f'slot {np.flatnonzero(b[bad[0]]).tolist()}; {bad.size} symbols'))


def long_case(case):
    """case = ('long', M, nsym, rem, what, seed): one seeded word of nsym symbols + rem surplus bits, vectorised oracles.
    what = 'encdec': encoder (length, one ON per block, big-endian position, truncation) and decoder;
    'hdd:<pattern>': HDD on the codeword (identity) / on the codeword with erased + extra slots / with balanced erased and
    extra slots (first symbol, symbols 65535, 65536 and the last symbol included), under the real generator (2 seeds) and
    scripted last-candidate answers; 'sdd': SDD on the noiseless waveform and on waveform + integer field, sps 1 and 2"""
    from opticomlib.ppm import PPM_ENCODER, PPM_DECODER, HDD, SDD
    from opticomlib.typing import binary_sequence
    _, M, nsym, rem, what, seed = case
    k = log2i(M)
    rs = np.random.RandomState(zlib.crc32(repr((M, nsym, rem, seed)).encode()))
    bits = rs.randint(0, 2, nsym * k + rem).astype(np.uint8)
    pos = ref_positions(bits, M)
    cw = np.zeros(nsym * M, dtype=bool)
    cw[np.arange(nsym) * M + pos] = True
    v = Viol()
    obs = []
    tag = f'M={M}, {nsym} symbols + {rem} bits (seeded word)'
    enc_out = None
    for name, obj in (('ndarray:uint8', bits), ('binary_sequence', binary_sequence(bits)), ('list', bits.tolist())) if what == 'encdec' else ():
        y = PPM_ENCODER(obj, M)
        if enc_out is None:
            enc_out = y
        a = np.asarray(data_of(y)[0]).ravel()
        if a.size != nsym * M:
            v.append(('ENC:length', f'{tag} form={name}: output has {a.size} slots, expected {nsym}*{M}'))
            continue
        rows = (a != 0).reshape(nsym, M)
        if ((a != 0) & (a != 1)).any() or (rows.sum(axis=1) != 1).any():
            i = int(np.flatnonzero(rows.sum(axis=1) != 1)[:1].sum())
            v.append(('ENC:not-one-ON-per-block', f'{tag} form={name}: block {i} has ON slots {np.flatnonzero(rows[i]).tolist()[:16]}'))
        elif (rows.argmax(axis=1) != pos).any():
            i = int(np.flatnonzero(rows.argmax(axis=1) != pos)[0])
            v.append(('ENC:position-not-big-endian', f'{tag} form={name}: block {i} ON at {rows[i].argmax()}, big-endian value of its bits is {pos[i]}'))
        obs.append(zlib.crc32(np.packbits(a != 0).tobytes()))
    trunc = bits[:nsym * k]
    dforms = [('ndarray:bool', cw), ('encoder output object', enc_out)]
    if cw.size <= 300000:
        dforms.append(('str', ''.join('01'[int(b)] for b in cw)))
    for name, obj in dforms if what == 'encdec' else ():
        z = np.asarray(data_of(PPM_DECODER(obj, M))[0]).ravel()
        if z.size != trunc.size or (z != trunc).any():
            v.append(('DEC:roundtrip' if name.startswith('encoder') else 'DEC:codeword->bits',
                      f'{tag} form={name}: decoder output ({z.size} bits) is not the word truncated to whole symbols ({trunc.size} bits)'
                      + (f'; first difference at bit {int(np.flatnonzero(z != trunc)[0])}' if z.size == trunc.size else '')))
        obs.append(zlib.crc32(np.packbits(z != 0).tobytes()))
    # HDD
    marks = sorted({0, 1, min(65535, nsym - 1), min(65536, nsym - 1), nsym - 2, nsym - 1})
    pats = {'codeword': cw}
    x = cw.copy().reshape(nsym, M)
    hit = np.unique(np.concatenate([rs.randint(0, nsym, max(8, nsym // 8)), marks]))
    for j, i in enumerate(hit):
        if j % 2:
            x[i] = False
        else:
            x[i, rs.randint(0, M, 1 + rs.randint(M))] = True
    pats['erased+extra'] = x.reshape(-1).copy()
    x = cw.copy().reshape(nsym, M)
    for i in hit[:-1:2]:                       # balanced: symbol i emptied, symbol i+1 gets a second ON slot
        if i + 1 < nsym and i + 1 not in hit[::2]:
            x[i] = False
            x[i + 1, (pos[i + 1] + 1 + rs.randint(M - 1)) % M] = True
    pats['balanced'] = x.reshape(-1).copy()
    for pname, p in pats.items():
        if what != 'hdd:' + pname:
            continue
        for how in ('np.random.seed(0)', 'np.random.seed(1)', 'scripted: last candidate'):
            obj = p.copy() if how.endswith('(0)') else binary_sequence(p) if how.endswith('(1)') else p.astype(np.uint8)
            snap = arg_snapshot(obj)
            if how.startswith('scripted'):
                oc = call_hdd_raw(obj, M, TreeRNG(fill=-1))
                if oc[0] == 'exc':
                    v.append((f'HDD:raises:{oc[1]}', f'{tag} pattern={pname} {how}: {oc[2]}'))
                    continue
                out = np.asarray(data_of(oc[1])[0]).ravel()
            else:
                np.random.seed(int(how[-2]))
                out = np.asarray(data_of(HDD(obj, M))[0]).ravel()
            arg_modified('HDD', type(obj).__name__, obj, snap, v)
            if out.size != p.size:
                v.append(('HDD:length', f'{tag} pattern={pname} {how}: output has {out.size} slots, expected {p.size}'))
                continue
            hdd_rows_oracle(M, p, out != 0, f'{tag} pattern={pname} {how}', v)
            obs.append(zlib.crc32(np.packbits(out != 0).tobytes()))
    # SDD
    if what == 'sdd':
        for sps in (1, 2):
            gv_reset(sps=sps, R=1e9)
            wave = np.repeat(cw.astype(float), sps)
            field = wave * 100 + rs.randint(0, 90, wave.size)
            for wname, w, key in (('noiseless waveform of the codeword', wave, 'SDD:not-identity-on-waveform:long'),
                                  ('codeword waveform + integer field', field, 'SDD:not-argmax:long')):
                y = SDD(w, M)
                vals, _ = check_sdd_general(y, w, M, sps, 0.0, f'{tag} sps={sps} {wname}', key, v)
                obs.append(zlib.crc32(np.packbits(vals != 0).tobytes()))
        gv_reset()
    return res(viol=_dedup(v), obs=(M, nsym, rem, what, tuple(obs)), nontrivial=(M, nsym, rem, what), stats={'long_symbols': nsym})


# =========================================================================== part 4: ValueError clauses
def ve_bits(length):
    return [(i * 7 + i // 3) % 2 for i in range(length)]


def ve_case(case):
    """case = ('ve', fn, clause, M, length, form, sps): the call must raise ValueError"""
    from opticomlib.ppm import HDD, SDD
    _, fn, clause, M, length, form, sps = case
    v = Viol()
    if fn == 'HDD':
        obj = container_forms(ve_bits(length), group=abs(M))[form]
        call = lambda: HDD(obj, M)  # noqa
    else:
        gv_reset(sps=sps, R=1e9)
        x = (np.arange(length) % 5).astype(float)
        obj = sdd_forms(x)[form]
        call = lambda: SDD(obj, M)  # noqa
    try:
        y = call()
        out = ('returned', type(y).__name__)
        v.append((f'VE:{fn}:{clause}:accepted', f'{fn}(<{form}, {length} '
                  f'{"slots" if fn == "HDD" else "samples, sps=" + str(sps)}>, M={M}) returned instead of raising ValueError'))
    except ValueError as e:
        out = ('ValueError',)
    except Exception as e:  # noqa
        out = (type(e).__name__,)
        v.append((f'VE:{fn}:{clause}:wrong-exception:{type(e).__name__}',
                  f'{fn}(<{form}, {length}>, M={M}, sps={sps}) raised {type(e).__name__}: {e} instead of ValueError'))
    if fn != 'HDD':
        gv_reset()
    return res(viol=v, obs=(fn, clause, M, length, form, sps, out), nontrivial=(fn, clause, M, length, form, sps))


# =========================================================================== enumeration of the spaces
def all_patterns(M, n):
    """every slot pattern of n symbols, simplest first (by number of non-valid symbols, then value)"""
    per = []
    for bits in range(2 ** M):
        per.append(tuple(p for p in range(M) if (bits >> (M - 1 - p)) & 1))
    per.sort(key=lambda on: (len(on) != 1, len(on), on))
    return itertools.product(per, repeat=n)


def symbol_kinds(M):
    ks = [(), (0,), (M - 1,), (0, 1), (0, M - 1), (M // 2 - 1, M // 2), (1, M // 2, M - 2), tuple(range(M)), tuple(range(1, M))]
    out = []
    for k in ks:
        k = tuple(sorted(set(k)))
        if k not in out:
            out.append(k)
    return out


def hdd_spaces(tier):
    """list of (part name, [cases], horizon)"""
    quick = tier == 'quick'
    parts = []
    # (a) EVERY slot pattern, FULL answer tree
    full = {2: range(1, 7), 4: range(1, 4), 8: range(1, 2)} if quick else \
           {2: range(1, 9), 4: range(1, 5), 8: range(1, 3), 16: range(1, 2)}
    for M, ns in full.items():
        for n in ns:
            # 'forms+': every dtype / element type / layout / write-protected container (quick: patterns <= 8 slots)
            extras = (('forms+' if (n * M <= 8 or not quick) else 'forms'), 'real') if n * M <= 12 else ()
            parts.append((f'hdd.full.M{M}.n{n}', [('hdd', M, s, None, extras) for s in all_patterns(M, n)], 300))
    # (b) EVERY slot pattern, deviation-bounded tree (quick only: 13..16 slots; thorough explores these fully above)
    if quick:
        for M, ns in {2: (7, 8), 4: (4,), 8: (2,)}.items():
            for n in ns:
                parts.append((f'hdd.dev2.M{M}.n{n}', [('hdd', M, s, 2, ()) for s in all_patterns(M, n)], 300))
    else:
        parts.append(('hdd.dev1.M2.n9', [('hdd', 2, s, 1, ()) for s in all_patterns(2, 9)], 300))
    # (c) large orders and long sequences: symbols from a kinds alphabet, deviation-bounded
    for M in ORDERS[3:]:
        kinds = symbol_kinds(M)
        for n in (1, 2, 3):
            if quick and n == 3 and M > 64:
                continue
            dev = None if n == 1 else (1 if quick else (None if n == 2 else 1))
            name = f'hdd.kinds.M{M}.n{n}.' + ('full' if dev is None else f'dev{dev}')
            # container forms here as well: the grouped string spellings ('<M slots> <M slots>') of the orders >= 8 need
            # >= 2 symbols, i.e. more slots than the exhaustive <= 12-slot patterns above have
            parts.append((name, [('hdd', M, s, dev, ('forms+' if n == 1 else 'forms',)) for s in itertools.product(kinds, repeat=n)],
                          3600 if dev is None else 600))
    long_seq = [(4, 5, 1), (8, 3, 2), (8, 4, 2)] if quick else [(4, 5, 2), (8, 3, None), (8, 4, 2), (8, 5, 2)]
    for M, n, dev in long_seq:
        kinds = symbol_kinds(M)
        name = f'hdd.kinds.M{M}.n{n}.' + ('full' if dev is None else f'dev{dev}')
        parts.append((name, [('hdd', M, s, dev, ()) for s in itertools.product(kinds, repeat=n)], 600))
    return parts


def enc_spaces(tier, seed):
    quick = tier == 'quick'
    parts = []
    # string spellings: every one for every word in the thorough tier; quick: every one up to 8 bits, the core five above
    bulk = 'core' if quick else 'all'
    # every sample dtype / element type / layout / write-protected variant: words up to 8 bits (thorough: all)
    words = [('enc', M, L, val, 'all' if L <= 8 else bulk, 'all' if (L <= 8 or not quick) else True)
             for L in range(0, 13) for val in range(2 ** L) for M in ORDERS]
    parts.append(('encdec.words<=12bits', words, 120))
    # every ordered pair / triple of symbol values
    seq = []
    for M in ORDERS:
        edge = sorted({0, 1, M // 2 - 1 if M > 2 else 0, M // 2, M - 2 if M > 2 else 0, M - 1})
        tails = tuple(range(M)) if (not quick or M <= 32) else tuple(edge)
        for v1 in range(M):
            seq.append(('encseq', M, (v1,), tails, bulk))
        for v1 in edge:
            for v2 in edge:
                seq.append(('encseq', M, (v1, v2), tuple(edge), bulk))
    parts.append(('encdec.symbol-sequences', seq, 300))
    longs = []
    for M in ORDERS:
        k = log2i(M)
        for nb in sorted({2000, 2000 + k - 1, 4096 + 1}):
            for kind in ('zeros', 'ones', 'alt'):
                longs.append(('enclong', M, nb, kind, 0, bulk))
            for j in range(2 if quick else 8):
                longs.append(('enclong', M, nb, 'seeded', seed * 1000 + j, bulk))
    parts.append(('encdec.long-words', longs, 300))
    return parts


def codewords(M, quick):
    """valid codewords as tuples of ON positions, simplest first"""
    nmax = {2: 6, 4: 3, 8: 2}.get(M, 1) if quick else {2: 8, 4: 4, 8: 2, 16: 2}.get(M, 1)
    out = []
    for n in range(1, nmax + 1):
        out += list(itertools.product(range(M), repeat=n))
    if M >= 16:
        edge = sorted({0, 1, M // 2, M - 1})
        have = set(out)
        out += [p for p in itertools.product(edge, repeat=2) if p not in have]
        out += [p for p in itertools.product((0, M - 1), repeat=3)]
    return out


def sdd_spaces(tier, seed):
    quick = tier == 'quick'
    parts = []
    dac = []
    for sps, shape in [(1, 'nrz')] + [(s, sh) for s in (2, 5, 16) for sh in ('nrz', 'rz', 'gaussian')]:
        for M in ORDERS:
            for cw in codewords(M, quick):
                dac.append(('sdddac', M, sps, shape, cw))
    dac.sort(key=lambda c: (len(c[4]) * c[1], c[1], c[2]))
    parts.append(('sdd.identity-on-DAC(codeword)', dac, 120))
    arg = []
    for M in ORDERS:
        for sps in (1, 2, 5, 16):
            for fam in ('amp', 'free', 'real', 'signed'):
                if fam == 'signed' and M > 8:
                    continue
                for k in range(2 if quick else 8):
                    arg.append(('sddarg', M, sps, max(2, 512 // M) if fam != 'signed' else 32, fam, k, seed))
    parts.append(('sdd.argmax-seeded-energies', arg, 120))
    perm = []
    for M in (2, 4) if quick else (2, 4, 8):
        for sps in (1, 2, 5, 16):
            for p in itertools.permutations(range(1, M + 1)):
                perm.append(('sddperm', M, sps, p))
    parts.append(('sdd.argmax-permutations', perm, 120))
    tie = []
    for M in (2, 4) if quick else (2, 4, 8):
        for sps in (1, 2, 5, 16):
            for levels in ((0.0, 1.0), (0.0, 1.0, 2.0)) if M <= 4 else ((0.0, 1.0),):
                tie.append(('sddtie', M, sps, levels))
    parts.append(('sdd.tied-energies', tie, 300))
    return parts


def ve_spaces(tier):
    quick = tier == 'quick'
    cases = []
    hforms = ['str', 'list', 'tuple', 'ndarray:uint8', 'ndarray:bool', 'binary_sequence']

    def hdd_forms(M, length):
        # + every separator spelling of the string form that exists for this length (see string_spellings)
        return hforms + [k for k in string_spellings(ve_bits(length), M) if k != 'str']

    for M in NON_POWERS:
        for length in sorted({abs(M), 2 * abs(M), 4 * abs(M), 8, 16, 24}):
            for form in hdd_forms(abs(M), length):
                cases.append(('ve', 'HDD', 'order-not-power-of-two', M, length, form, 0))
    for length in (8, 16):
        for form in hforms:
            cases.append(('ve', 'HDD', 'order-zero', 0, length, form, 0))
    for M in ORDERS:
        ls = range(1, 3 * M) if M <= 8 else (1, M // 2, M - 1, M + 1, 2 * M - 1, 2 * M + 1, 3 * M + M // 2)
        for length in ls:
            if length % M:
                for form in hdd_forms(M, length):
                    cases.append(('ve', 'HDD', 'length-not-whole-symbols', M, length, form, 0))
    sforms = ['ndarray', 'electrical_signal', 'electrical_signal+zero-noise']
    for sps in (1, 2, 5, 16):
        for M in NON_POWERS:
            for length in sorted({abs(M) * sps, 2 * abs(M) * sps, 16 * sps}):
                for form in sforms:
                    cases.append(('ve', 'SDD', 'order-not-power-of-two', M, length, form, sps))
        for form in sforms:
            cases.append(('ve', 'SDD', 'order-zero', 0, 16 * sps, form, sps))
        for M in ORDERS:
            base = M * sps
            for length in sorted({1, sps, base - 1, base + 1, base + sps, 2 * base - sps, 2 * base + 1, base + base // 2}):
                if length % base:
                    for form in sforms:
                        cases.append(('ve', 'SDD', 'length-not-whole-symbols', M, length, form, sps))
    return [('valueerror-clauses', cases, 120)]


def conformance_space(tier, seed):
    quick = tier == 'quick'
    cases = []
    for M in ORDERS:
        nslots = M * -(-2000 // M)
        for dens in sorted({0.5 / M, 1.0 / M, 0.5, 0.9}) + [0.0, 1.0, 'balanced']:
            for rseed in range(8 if not isinstance(dens, str) and 0 < dens < 1 else 2):
                for f in range(1 if quick else 4):
                    cases.append(('hddreal', M, nslots, dens, rseed, seed * 100 + f))
    return [('hdd.real-rng-conformance', cases, 300)]


def harden_spaces(tier, seed):
    """input classes of the generic hardening pass: list of (part, case function, cases, horizon)"""
    quick = tier == 'quick'
    parts = []
    # order given as numpy scalar / 0-d array / float-valued
    mf = [('mform', M, form, seed) for form in M_FORMS_EQUAL + M_FORMS_EITHER + M_FORMS_OBSERVED for M in ORDERS if make_order(M, form) is not None]
    parts.append(('order-scalar-types', order_form_case, mf, 120))
    # records of zero symbols
    deg = [('empty', fn, M, form) for fn in ('ENC', 'DEC', 'HDD', 'SDD') for M in (2, 16, 256)
           for form in (('list', 'tuple', 'ndarray:float64') if fn == 'SDD' else ('list', 'tuple', 'ndarray:bool', 'ndarray:float64'))]
    parts.append(('zero-symbols', degenerate_case, deg, 120))
    # SDD: sample dtype x container/noise layout (full product) and scale x float dtype x 3 layouts
    gen = []
    for M in (2, 8, 256) if quick else ORDERS:
        for sps in (1, 2, 5, 16):
            nsym = max(4, 64 // M)
            for scale in SDD_SCALES:
                for dt in SDD_DTYPES:
                    for lay in SDD_LAYOUTS if scale == 1.0 else ('ndarray', 'electrical_signal+split:same', 'electrical_signal+split:float32'):
                        if sdd_variant_exists(dt, lay, scale):
                            gen.append(('sddgen', M, sps, nsym, dt, lay, scale, seed))
    gen.sort(key=lambda c: (c[6] != 1.0, c[1] * c[2]))
    parts.append(('sdd.dtypes-layouts-scales', sdd_general_case, gen, 120))
    # SDD after the grid was reconfigured: one configuration, then every a -> b -> a
    lays = ('ndarray', 'electrical_signal', 'electrical_signal+split:float32')
    orders = (2, 16, 256) if quick else tuple(ORDERS)
    n = len(GV_MENU)
    seqs = [(i,) for i in range(n)] + [(i, j, i) for i in range(n) for j in range(n) if i != j]
    parts.append(('sdd.gv-call-histories', sdd_gv_sequence_case, [('sddseq', q, lay, orders, seed) for q in seqs for lay in lays], 120))
    # records beyond 2^16 slots / symbols
    sizes = [(2, 70001), (4, 65537), (16, 4097), (256, 257), (256, 300)] if quick else \
            [(2, 70001), (2, 131073)] + [(M, 65537) for M in ORDERS] + [(M, 65536 // M + 1) for M in ORDERS[4:]]
    longs = []
    for M, nsym in sizes:
        for what in ('encdec', 'hdd:codeword', 'hdd:erased+extra', 'hdd:balanced', 'sdd'):
            if what == 'sdd' and nsym * M > 2 ** 21:
                continue
            longs.append(('long', M, nsym, log2i(M) - 1, what, seed))
    longs.sort(key=lambda c: -c[1] * c[2])          # the big ones first: they are the critical path of this part
    parts.append(('long-records', long_case, longs, 600))
    return parts


# =========================================================================== driver
REGRESS = [
    # smallest members of each part; run first so that a broken tree reports within a second
    (hdd_case, ('hdd', 2, ((0, 1),), None, ('forms+', 'real'))),
    (hdd_case, ('hdd', 4, ((), (1, 2)), None, ('forms+', 'real'))),
    (enc_case, ('enc', 4, 2, 0b01, 'all', 'all')),          # one 4-ary symbol: bit order
    (enc_case, ('enc', 2, 2, 0b01, 'all', 'all')),          # two binary symbols: position modulo M
    (sdd_dac_case, ('sdddac', 2, 2, 'nrz', (1,))),
    (sdd_dac_case, ('sdddac', 4, 2, 'rz', (1, 3))),
]


def run(ctx):
    tier, seed = ctx.tier, ctx.seed
    ctx.rule('C12: (1) PPM_ENCODER/PPM_DECODER on EVERY bit string of length 0..12 x M in {2..256} x every container form '
             '(str - separator-free AND every separator spelling of the library string format: blank, comma, comma+blank, 2 blanks, '
             'blank+comma between elements or between symbols/bit blocks, blank-padded; quick: the 5 core spellings above 8 bits - '
             '/list/tuple/ndarray of 4 dtypes/binary_sequence/binary_sequence(str with blanks)); the same forms for HDD on every '
             'pattern <= 12 slots and the kinds alphabet, and in the ValueError clauses; every ordered pair of symbol values, edge triples, long '
             'structured + seeded words; (2) HDD: stateless exploration of the nondeterminism tree - a scripted numpy RNG turns every '
             'scalar randint/choice request into a tree node and the explorer re-executes the real HDD for every answer - FULL tree '
             'for EVERY slot pattern (quick: <=12 slots M in {2,4,8}; thorough: <=16 slots M in {2,4,8,16}), deviation-bounded tree '
             '(<=d answers differ from the first candidate) for 13..18-slot patterns, for orders 16..256 and 5-6 symbol sequences '
             'over a 9-kind symbol alphabet; on every leaf: exactly one ON per symbol, valid symbols unchanged, kept slot was ON; on '
             'every request: choice only among ON slots; real-RNG outcomes must be leaves of the tree; (3) real-RNG conformance on '
             '2000-slot seeded patterns, 8 seeds, replayed through the scripted RNG; (4) SDD identity on DAC(codeword) for sps in '
             '{1,2,5,16} x nrz/rz/gaussian x exhaustive short codewords per order, chain DEC(SDD(DAC(ENC(b))))==b; SDD argmax on '
             'tie-free seeded energies (3 families) and every permutation of slot amplitudes; (5) ValueError for non-power-of-two '
             'orders (2^k+-1, negative, 0) and ragged lengths, all container forms, sps 1..16; (6) generic hardening pass: bit containers in '
             'every sample dtype / element type / strided / write-protected layout (words <= 8 bits, HDD patterns <= 8 slots; thorough <= 12), '
             'argument objects compared byte for byte after every call, the same object passed again (HDD: under other RNG answers), chains '
             'HDD(ENC(b)) and HDD(SDD(DAC(cw))); the order as numpy scalar / 0-d array / float-valued / keyword; records of zero symbols; SDD on '
             '14 sample dtypes x 14 container/noise layouts (noise of another dtype, signal+noise split, zero-sum noise) + 5 scales/offset through a '
             'generic oracle (symbols on which all readings of "energy" agree); SDD on one shared object after every gv reconfiguration a->b->a '
             'over 10 ways of fixing the grid x every order; records beyond 2^16 slots / symbols through all four functions')
    ctx.assume('numpy.random.randint/choice with a seeded generator only ever return values from the candidate set the call '
               'describes (bound by the conformance part: every recorded real answer is a candidate and replaying it through the '
               'scripted RNG reproduces the real output byte for byte)')
    ctx.assume('HDD reaches the RNG only through the module attributes numpy.random.randint/choice/normal/randn (any other '
               'numpy.random entry point raises "unscripted randomness" = harness error, exit 2)')
    ctx.assume("SDD's 'integrated energy' of a slot: seeded fields are restricted to symbols on which sum(x) and sum(x^2) over the "
               'slot select the same slot, so the oracle does not depend on which of the two readings is meant; a choice request '
               'whose population is not contained in the ON set of any symbol (and no empty symbol exists that it could repair) is '
               'reported although an implementation could in principle discard the drawn value')
    ctx.assume("VERIF_SEED selects only the content of the seeded long words / slot patterns / energy fields; enumeration is fixed")

    for fn, case in REGRESS:
        ctx.run_case('smallest-cases', fn, case)

    # ---- HDD answer trees
    for name, cases, horizon in hdd_spaces(tier):
        ctx.pmap(name, hdd_case, cases, horizon=horizon, quiet=False, recheck=2)
    st = ctx.stats
    ctx.graph(states=st.get('hdd_nodes', 0), transitions=st.get('hdd_edges', 0), traces=st.get('hdd_leaves', 0))
    ctx.extra['hdd_tree'] = {k: st.get(k, 0) for k in ('hdd_patterns', 'hdd_leaves', 'hdd_nodes', 'hdd_edges', 'hdd_pruned_branches',
                                                        'hdd_patterns_multi_outcome', 'hdd_distinct_outcomes', 'hdd_real_runs',
                                                        'hdd_form_runs')}
    print(f'[C12] HDD trees: {ctx.extra["hdd_tree"]}', flush=True)
    # vacuity floor (DESIGN 7): the RNG seam must bite - some pattern must have >= 2 distinct outcomes
    if st.get('hdd_patterns_multi_outcome', 0) < 1 or st.get('hdd_leaves', 0) <= st.get('hdd_patterns', 0):
        ctx.harness_errors.append(('hdd', '-', 'vacuous: no pattern produced two distinct outcomes - the scripted RNG is not reaching HDD'))

    for name, cases, horizon in conformance_space(tier, seed):
        ctx.pmap(name, hdd_real_case, cases, horizon=horizon, recheck=2)

    # ---- encoder / decoder
    for name, cases, horizon in enc_spaces(tier, seed):
        fn = {'enc': enc_case, 'encseq': encseq_case, 'enclong': enclong_case}[cases[0][0]]
        ctx.pmap(name, fn, cases, horizon=horizon, recheck=2)

    # ---- SDD
    for name, cases, horizon in sdd_spaces(tier, seed):
        fn = {'sdddac': sdd_dac_case, 'sddarg': sdd_argmax_case, 'sddperm': sdd_perm_case, 'sddtie': sdd_tie_case}[cases[0][0]]
        ctx.pmap(name, fn, cases, horizon=horizon, recheck=2)

    # ---- hardening pass: order scalar types, zero symbols, SDD dtypes/layouts/scales, gv call histories, long records
    for name, fn, cases, horizon in harden_spaces(tier, seed):
        ctx.pmap(name, fn, cases, horizon=horizon, recheck=2)

    # ---- ValueError clauses
    for name, cases, horizon in ve_spaces(tier):
        ctx.pmap(name, ve_case, cases, horizon=horizon, recheck=2)
