"""C02 - time/frequency transforms are exact inverses on the sampling-rate FFT grid.

Model checking of `electrical_signal.__call__` / `w()` / `power()` (opticomlib/typing.py):

part `xf`   : for every *leaf* (class/layout x length x data pattern x noise mode) a breadth-first
              search over transform programs - sequences of ('w'|'f'|'t', shift) - executed on the REAL
              objects, de-duplicated by the canonical object state, in lock-step with two reference
              models that step an (S, N) array pair: (a) numpy.fft row by row + the *named* numpy shift,
              (b) an exact DFT (80-bit DFT matrix, shift = explicit np.roll).  Every transition and every
              state is checked (see `_expand`).
part `wgrid`: full product layout x length x noise x (gv configuration at construction) x (gv
              configuration at call time): w()/w(True) must follow the gv in force when w() is CALLED.

The data alphabet is the full basis e_k, j*e_k (every k, every row, real and complex dtype) of every
length, plus ramps and one VERIF_SEED-selected random field; the noise alphabet is absent / basis
(pair-space basis (0, b)) / mixed / zero-sum.

Sample-dtype axis (`DTYPES`): the objects store the samples in the dtype they were given, so "every signal
object" includes records held in bool, (u)int8/16/32/64, float16/32, long double, complex64 and complex long
double.  Every such dtype x every layout x every length gets its own leaves (ramp, values at both limits of
the integer type / values that are not representable in a lower precision, last basis element, seeded random
field; without and with same-dtype noise).  Precision demanded on them: see `_leaf_eps`.

Hardening pass (input classes, not oracles; see notes/C02.md "Hardening pass"):
* long lengths (`LONG_QUICK`/`LONG_EXTRA`: non-smooth primes 97/127, 2^k-1, 1023..1025, 4095..4097, 8191, ...) with a reduced
  data alphabet; above `EXACT_FULL_MAX` samples the exact model is evaluated at `_bins(n)` output positions (`ex_bins`);
* noise present-and-all-zero (`zero`), noise handed over in another dtype than the signal (`xdt`), scale members 1e-12 and
  "DC 1e6 + 1e-3 variation";
* gv histories with non-integer fs/R given as (R,fs), (sps,fs), fs alone, with a slot count, another wavelength, a custom attribute;
* `by=` of power()/abs() (`check_by`), len() on every state, keyword / numpy-scalar spellings of domain, shift, by
  (`check_spellings`), invalid domains that contain a valid token, the same call repeated on one object;
* "forms" (`FORMS`): the object obtained from a list / tuple / str / scalar / dtype= / read-only / column-major input, with
  non-contiguous views as attributes, by row duplication, by slicing a longer object, by copy().
"""
from __future__ import annotations
import hashlib
import math
import warnings
import numpy as np

from mcx.core.kernel import res
from mcx.core.env import gv_reset, gv_snapshot, freeze, unchanged

ID = 'C02'
LEVEL = 'model_checking'
NONTRIVIAL = ('distinct reached object states (class, n_pol, signal bytes, noise bytes) of length >= 2 on which a '
              'wrong shift / wrong axis / dropped noise would be observable: odd length >= 3 (fftshift != ifftshift), '
              'or noise present and non-zero, or two polarisations with different rows')

EPS = float(np.finfo(np.float64).eps)
K_FFT = 8.0                       # rounding constant of one transform: ||err||inf <= K*eps*max(1,log2 N)*||x||2
LENGTHS_QUICK = (1, 2, 3, 4, 5, 7, 8, 11, 13, 16, 17)   # 13: smallest "non-smooth" length (a prime factor > 11)
LENGTHS_EXTRA = (6, 9, 31, 32)                # thorough only
LENGTHS_DEPTH4 = (1, 2, 3, 4, 5, 7, 8, 11, 16, 17)      # thorough: programs of depth 4 (depth 3 on the other short lengths)
# long lengths (reduced data alphabet, see `long_patterns`): non-smooth primes, one period 2^k-1, one below / at / one above
# the block sizes 1024 and 4096 (the library's default `nslots`), > 4096
LONG_QUICK = (97, 127, 1023, 1024, 1025, 4095, 4096, 4097, 8191)
LONG_EXTRA = (61, 255, 257, 2047, 4099, 16384)          # thorough only
WGRID_LONG = (127, 4096, 4097)
LONG_THIN = 2000                  # long lengths above this one: thinner data alphabet (`long_patterns`), noise modes none|mix|zs (+ zero once)
EXACT_FULL_MAX = 128              # up to this length the exact model is the full long-double DFT matrix; above: `ex_bins`
LAYOUTS = ('E', 'O1', 'O2')                    # electrical_signal, optical_signal 1-pol, optical_signal 2-pol
NMODES = ('none', 'swap', 'mix', 'zs')        # no noise | S=0,N=pattern | S=pattern,N=other basis el. | zero-sum noise
NMODES_FIELD = NMODES + ('zero',)             # field (non-basis) members also with a noise array that is present and all zero
OPS = (('w', False), ('f', False), ('t', False), ('w', True), ('f', True), ('t', True))
W_DEPTH = 2                       # w() depends on len() and gv only: checked on every state of depth <= 2
BAD_DOMAINS = ('x', '', 'time', 'wt', 'z', None, 0, 1.5,
               'tw', ' t', 'w ', 'fw', 'w,f', 't;', ('w',), ['t'], b'w')       # ... invalid values that CONTAIN a valid token
# `by=` argument of power() / abs()
BY_VALID = ('signal', 'noise', 'all')
BY_CASE = ('ALL', 'Signal', 'NOISE', 'aLl')   # letter case is not documented: must raise or mean the lower-case value
BY_BAD_STR = ('', 'x', 'sig', 'alls', 'all ', ' signal', 'signal+noise', 'noise,all', 'both')
BY_BAD_OTHER = (None, 0, 1.5, True, ('all',), ['signal'], b'all')
BY_DEPTH = 0                      # case / keyword / invalid spellings of `by` on the leaf state (the three valid values: every state)

# sample dtypes other than float64 / complex128 / the platform int (those are the 'e', 'ec', 'ramp_i', ... members)
DTYPES = ('bool', 'int8', 'uint8', 'int16', 'uint16', 'int32', 'uint32', 'int64', 'uint64',
          'float16', 'float32', 'longdouble', 'complex64', 'clongdouble')
DT_KINDS = ('ramp', 'edge', 'elast', 'rnd')      # 'edge' = both limits of an integer type | thirds/sevenths (not exact in any lower precision)
DT_NMODES = ('none', 'swap', 'mix')               # noise of the SAME dtype (the constructor keeps the common dtype)
DT_DEPTH_QUICK = 1                                # every transform result is complex: the sample dtype only matters for the first operation
# nmode 'xdt': noise handed over in a DIFFERENT dtype than the signal; the constructor stores both in numpy's common
# type.  Partners are chosen so that the promotion is exact for every sample value (stored values == given values).
XDT_PARTNER = {'bool': 'int8', 'int8': 'uint8', 'uint8': 'float16', 'int16': 'float32', 'uint16': 'int32', 'int32': 'float64',
               'uint32': 'int64', 'int64': 'int8', 'uint64': 'uint8', 'float16': 'int8', 'float32': 'complex64',
               'longdouble': 'complex64', 'complex64': 'float64', 'clongdouble': 'int8'}
XDT_KINDS = ('ramp', 'rnd')
# dtype members of the long lengths (values stay inside float16 / the squares inside float32)
LONG_DT = (('bool', 'rnd'), ('int8', 'edge'), ('uint8', 'rnd'), ('int16', 'rnd'), ('int32', 'edge'), ('int64', 'ramp'),
           ('uint64', 'edge'), ('float16', 'rnd'), ('float32', 'edge'), ('complex64', 'rnd'), ('longdouble', 'edge'))
EPS32 = float(np.finfo(np.float32).eps)


def _leaf_eps(dtname):
    """unit roundoff that "to rounding error" may refer to for samples stored in the given dtype.

    numpy.fft (the transform the statement names) converts bool and integers of EVERY width to double and computes
    in double, in every numpy release; samples wider than double are computed in double (numpy 1.x) or wider
    (numpy 2.x): for all of these the statement demands double-precision rounding error.  Half/single precision
    samples are computed in double by numpy 1.x but in single precision by numpy >= 2.0, so for float16 / float32 /
    complex64 samples only single-precision rounding error can be demanded safely."""
    return EPS32 if dtname in ('float16', 'float32', 'complex64') else EPS


def _dt_class(dtname):
    if dtname is None:
        return ''
    k = np.dtype(dtname).kind
    if k in 'iu':
        return ':dt=int'
    if k == 'b':
        return ':dt=bool'
    if np.dtype(dtname) in (np.dtype('float64'), np.dtype('complex128')):
        return ':dt=double'                                       # only reached through the promoted 'xdt' members
    return ':dt=single' if _leaf_eps(dtname) > EPS else ':dt=extended'

# gv call histories (applied after gv.clean()); a-priori sampling rate where the last call fixes it
GV_CFGS = (
    ((), 16e9),
    (({'sps': 8},), 8e9),
    (({'sps': 4},), 4e9),
    (({'R': 2e9},), 32e9),
    (({'fs': 64e9},), 64e9),
    (({'sps': 4, 'R': 2.5e9},), 10e9),
    (({'fs': 20e9, 'R': 10e9},), 20e9),
    (({'sps': 8, 'R': 3e9, 'N': 2},), 24e9),      # gv.w exists with 16 entries (a trap for length 16)
    (({'N': 1, 'sps': 5, 'R': 1e9},), 5e9),       # gv.w exists with 5 entries  (a trap for length 5)
    (({'sps': 8}, {'fs': 12e9}), 12e9),           # two-call history
    (({'sps': 1, 'fs': 1.0},), 1.0),              # unit sampling rate
    (({'sps': 16, 'R': 10e9, 'N': 4},), 160e9),
    # --- hardening pass: NON-commensurate grids (gv.fs != gv.R*gv.sps afterwards), fs alone, other wavelength, custom attribute
    (({'R': 3e9, 'fs': 10e9},), 10e9),            # fs/R = 3.33: gv.sps becomes 3, gv.fs stays 10e9
    (({'fs': 2.5e9},), 2.5e9),                    # fs alone, fs/R = 2.5: gv.sps becomes 2
    (({'sps': 8, 'fs': 10e9},), 10e9),            # (sps, fs): R = 1.25e9
    (({'fs': 12.3456e9, 'R': 1e9},), 12.3456e9),
    (({'sps': 4, 'R': 10e9, 'wavelength': 1310e-9},), 40e9),
    (({'sps': 16, 'R': 1e9, 'N': 256},), 16e9),   # default rate, gv.w / gv.t exist with 4096 entries (a trap for length 4096)
    (({'R': 7e9, 'fs': 10e9, 'N': 3},), 10e9),    # non-integer fs/R AND a slot count: gv.sps = 1, gv.w has 3 entries (trap for length 3)
    (({'sps': 2, 'R': 1e9, 'alpha': 0.5},), 2e9), # a custom attribute next to the grid
    (({'fs': 10e9, 'R': 3e9}, {'sps': 4, 'R': 2e9}), 8e9),   # two-call history through a non-commensurate grid
    (({'sps': 8, 'R': 1e9}, {'fs': 7.7e9, 'R': 2e9}), 7.7e9),  # ... and ending on one (gv.sps = 4, fs/R = 3.85)
)


# ------------------------------------------------------------------ exact DFT reference (80-bit)
_LD = np.longdouble
_CLD = np.clongdouble
_PI_LD = _LD(4) * np.arctan(_LD(1))
_W = {}


def _dftmat(n, sign):
    key = (n, sign)
    if key not in _W:
        k = np.arange(n)
        m = (np.outer(k, k) % n).astype(_LD)            # exact integer reduction of k*n mod N
        ang = 2 * _PI_LD * m / _LD(n)
        w = np.empty((n, n), dtype=_CLD)
        w.real = np.cos(ang)
        w.imag = sign * np.sin(ang)
        _W[key] = w
    return _W[key]


def ex_step(a, dom, shift):
    """exact model: a is (rows, N) clongdouble (or None)"""
    if a is None:
        return None
    n = a.shape[1]
    if dom in ('w', 'f'):
        b = a @ _dftmat(n, -1)
        if shift:
            b = np.roll(b, n // 2, axis=1)               # what numpy.fft.fftshift does
    else:
        b = (a @ _dftmat(n, +1)) / _LD(n)
        if shift:
            b = np.roll(b, -(n // 2), axis=1)            # what numpy.fft.ifftshift does
    return b


def _bins(n):
    """output positions at which the exact DFT is evaluated for lengths > EXACT_FULL_MAX: both ends, the three positions
    around the middle (where a shift error moves DC to / from), and a spread of interior positions"""
    c = {0, 1, 2, 3, n // 2 - 1, n // 2, n // 2 + 1, n - 3, n - 2, n - 1, n // 7, n // 5, n // 3, (5 * n) // 8, (2 * n) // 3, 17}
    return np.array(sorted(k for k in c if 0 <= k < n), dtype=np.int64)


_WB = {}


def ex_bins(a, dom, shift, pos):
    """exact model at the output positions `pos` only (a long-double dot product per position): a is (rows, N) clongdouble"""
    n = a.shape[1]
    fwd = dom in ('w', 'f')
    key = (n, fwd, bool(shift))
    if key not in _WB:
        if _WB and next(iter(_WB))[0] != n:
            _WB.clear()                                  # keep the twiddle columns of one length only
        if shift:                                        # out[j] = X[(j - N//2) mod N] after fftshift, x[(j + N//2) mod N] after ifftshift
            k = (pos - n // 2) % n if fwd else (pos + n // 2) % n
        else:
            k = pos
        m = (np.outer(np.arange(n, dtype=np.int64), k) % n).astype(_LD)     # exact integer reduction
        ang = 2 * _PI_LD * m / _LD(n)
        w = np.empty(m.shape, dtype=_CLD)
        w.real = np.cos(ang)
        w.imag = (-1 if fwd else 1) * np.sin(ang)
        _WB[key] = w
    b = a @ _WB[key]
    return b if fwd else b / _LD(n)


def np_step(a, dom, shift):
    """numpy.fft model, row by row: a is (rows, N) complex128 (or None)"""
    if a is None:
        return None
    rows = []
    for r in a:
        if dom in ('w', 'f'):
            y = np.fft.fft(r)
            if shift:
                y = np.fft.fftshift(y)
        else:
            y = np.fft.ifft(r)
            if shift:
                y = np.fft.ifftshift(y)
        rows.append(y)
    return np.array(rows)


def fftfreq_ref(n):
    """k/N in FFT order, written out (not numpy.fft.fftfreq)"""
    return np.array([k / n for k in list(range(0, (n - 1) // 2 + 1)) + list(range(-(n // 2), 0))], dtype=float)


# ------------------------------------------------------------------ leaves
def patterns(layout, n):
    rows = 2 if layout == 'O2' else 1
    out = []
    for kind in ('e', 'ec', 'je'):
        for p in range(rows):
            for k in range(n):
                out.append((kind, p, k))
    # scale members: the statement is scale free (tiny amplitude; O(1) in-phase with a 1e-9 quadrature part; large amplitude)
    out += list(FIELD_PATTERNS)
    return out


# scale members: the statement is scale free (amplitude 1e-10 / 1e-12; O(1) in-phase with a 1e-9 quadrature part; amplitude 1e6;
# a DC level of 1e6 carrying a variation of 1e-3)
FIELD_PATTERNS = (('ramp_r',), ('ramp_i',), ('ramp_c',), ('rnd',), ('ramp_tiny',), ('ramp_quad',), ('ramp_big',),
                  ('ramp_pico',), ('ramp_dc',))


def long_patterns(layout, n):
    """data alphabet of the long lengths: the basis elements at both ends and around the middle of every row (not the full
    basis), every field member, and one member per sample-dtype class"""
    rows = 2 if layout == 'O2' else 1
    if n > LONG_THIN:                                    # every transform costs a millisecond here: first / last element of every row
        return [('e', p, 0) for p in range(rows)] + [('je', rows - 1, n - 1), ('ec', 0, n // 2 + 1),
                                                     ('ramp_i',), ('ramp_c',), ('rnd',), ('ramp_pico',), ('ramp_dc',)]
    out = [('e', p, k) for p in range(rows) for k in (0, 1, n // 2, n - 1)]
    out += [('ec', rows - 1, n // 2 + 1), ('je', rows - 1, n - 1)]
    out += list(FIELD_PATTERNS)
    return out


def _pattern_array(layout, n, pat, seed):
    rows = 2 if layout == 'O2' else 1
    kind = pat[0]
    if kind in ('e', 'ec', 'je'):
        _, p, k = pat
        a = np.zeros((rows, n), dtype=float if kind == 'e' else complex)
        a[p, k] = 1j if kind == 'je' else 1.0
    elif kind in ('ramp_tiny', 'ramp_quad', 'ramp_big', 'ramp_pico', 'ramp_dc'):
        r0 = np.arange(1, n + 1)
        base = np.array([r0 * (1 + 0.5j), (-2.0 * r0[::-1] + 0.5) * (0.5 - 1j)][:rows], dtype=complex)
        if kind == 'ramp_tiny':
            a = base * 1e-10
        elif kind == 'ramp_pico':
            a = base * 1e-12
        elif kind == 'ramp_big':
            a = base * 1e6
        elif kind == 'ramp_dc':
            a = (1e6 - 2.5e5j) + base * 1e-3
        else:
            a = base.real + 1e-9j * base.imag
    elif kind in ('ramp_r', 'ramp_i', 'ramp_c'):
        r0 = np.arange(1, n + 1)
        if kind == 'ramp_i':
            a = np.array([r0, -2 * r0[::-1] + 1][:rows], dtype=int)
        elif kind == 'ramp_r':
            a = np.array([r0, -2.0 * r0[::-1] + 0.5][:rows], dtype=float)
        else:
            a = np.array([r0 * (1 + 0.5j), (-2.0 * r0[::-1] + 0.5) * (0.5 - 1j)][:rows], dtype=complex)
    elif kind == 'rnd':
        rs = np.random.RandomState((seed * 1000003 + n * 31 + LAYOUTS.index(layout)) % 2 ** 32)
        a = rs.randn(rows, n) + 1j * rs.randn(rows, n)
    else:
        raise KeyError(kind)
    return a


def _dt_pattern(layout, n, dtname, kind, seed):
    rows = 2 if layout == 'O2' else 1
    dt = np.dtype(dtname)
    r0 = np.arange(1, n + 1)
    t = np.arange(n)
    if kind == 'elast':                                   # last basis element of the last row: every twiddle factor appears
        a = np.zeros((rows, n), dtype=dt)
        a[rows - 1, n - 1] = 1
        return a
    if dt.kind == 'b':
        if kind == 'ramp':
            v = [t % 3 != 1, t % 2 == 0]
        elif kind == 'edge':
            v = [np.ones(n, bool), t % 2 == 1]
        else:
            rs = np.random.RandomState((seed * 1000003 + n * 31 + LAYOUTS.index(layout) + 7919 * (1 + DTYPES.index(dtname))) % 2 ** 32)
            v = list(rs.randint(0, 2, size=(2, n)).astype(bool))
        return np.array(v[:rows], dtype=dt)
    if dt.kind in 'iu':
        info = np.iinfo(dt)
        if kind == 'ramp':                                # small counts (|.|^2 stays inside even int8 for the short lengths, see _fixed_width_closed)
            v = [r0, (-2 * r0[::-1] + 1) if dt.kind == 'i' else (2 * r0[::-1] + 1)]
            return np.array(v[:rows]).astype(dt)
        if kind == 'edge':                                # both limits of the type, and their neighbours
            cyc = [info.min, info.max, 0, info.max - 1, info.min + 1, 1]
            v = [[cyc[i % 6] for i in range(n)], [cyc[(i + 1) % 6] for i in range(n)]]
            return np.array(v[:rows], dtype=dt)
        rs = np.random.RandomState((seed * 1000003 + n * 31 + LAYOUTS.index(layout) + 7919 * (1 + DTYPES.index(dtname))) % 2 ** 32)
        return rs.randint(info.min, info.max, size=(rows, n), dtype=dt)       # full range of the type
    # floating / complex floating
    cplx = dt.kind == 'c'
    if kind == 'ramp':                                    # exactly representable in every float type
        v = [r0 * 0.5 + 0.25, -2.0 * r0[::-1] + 0.5]
        if cplx:
            v = [r0 * (1 + 0.5j), (-2.0 * r0[::-1] + 0.5) * (0.5 - 1j)]
    elif kind == 'edge':                                  # rounded differently in every precision
        one, three, seven = dt.type(1), dt.type(3), dt.type(7)
        v = [r0.astype(dt) / three, -(r0[::-1].astype(dt)) / seven + one / three]
        if cplx:
            v = [v[0] + 1j * (r0.astype(dt) / seven), v[1] - 1j * (r0.astype(dt) / three)]
    else:
        rs = np.random.RandomState((seed * 1000003 + n * 31 + LAYOUTS.index(layout) + 7919 * (1 + DTYPES.index(dtname))) % 2 ** 32)
        v = rs.randn(2, n) + (1j * rs.randn(2, n) if cplx else 0.0)
        v = list(v)
    return np.array(v[:rows]).astype(dt)


def _dt_leaf(layout, n, pat, nmode, seed):
    """leaves whose samples (signal AND noise) are stored in the dtype pat[1]"""
    _, dtname, kind = pat
    rows = 2 if layout == 'O2' else 1
    dt = np.dtype(dtname)
    a = _dt_pattern(layout, n, dtname, kind, seed)
    assert a.dtype == dt and a.shape == (rows, n), (a.dtype, a.shape)
    if nmode == 'none':
        return a, None
    if nmode == 'swap':
        return np.zeros((rows, n), dtype=dt), a
    if nmode == 'mix':                                    # a different non-zero field of the same dtype
        return a, _dt_mix(rows, n, dt)
    if nmode == 'xdt':                                    # ... of ANOTHER dtype: the object stores the common type of the two
        return a, _dt_mix(rows, n, np.dtype(XDT_PARTNER[dtname]))
    raise KeyError(nmode)


def _dt_mix(rows, n, dt):
    t = np.arange(n)
    if dt.kind == 'b':
        v = [t % 3 == 0, t % 2 == 1]
    elif dt.kind == 'u':
        v = [(3 * t + 1) % 5, (2 * t + 1) % 3]
    elif dt.kind == 'i':
        v = [(3 * t + 1) % 5 - 2, 1 - (2 * t + 1) % 3 * 2]
    elif dt.kind == 'f':
        v = [0.25 * (-1.0) ** t + 0.125 * ((t + 1) % 64), -0.125 + 0.0625 * (t % 64)]
    else:
        v = [0.25 * (-1.0) ** t + 0.125j * ((t + 1) % 64), 0.5j * (-1.0) ** t - 0.125 + 0.0625 * (t % 64)]
    return np.array(v[:rows]).astype(dt)


def leaf_arrays(layout, n, pat, nmode, seed):
    """(S, N) as (rows, n) arrays; N None when absent"""
    rows = 2 if layout == 'O2' else 1
    if pat[0] == 'dt':
        return _dt_leaf(layout, n, pat, nmode, seed)
    a = _pattern_array(layout, n, pat, seed)
    if nmode == 'none':
        return a, None
    if nmode == 'zero':                                   # noise present and all zero (same dtype as the signal)
        return a, np.zeros_like(a)
    if nmode == 'swap':                                   # pair-space basis element (0, b)
        return np.zeros((rows, n)), a
    if nmode == 'mix':                                    # a different, non-zero-sum field as noise
        if pat[0] in ('e', 'ec', 'je'):
            q = (pat[1] * n + pat[2] + 1) % (rows * n)
            nz = np.zeros((rows, n), dtype=complex)
            nz[q // n, q % n] = -0.5j
        else:
            t = np.arange(n)
            nz = np.array([0.25 * (-1.0) ** t + 0.125j * (t + 1) / n,
                           0.5j * (-1.0) ** t - 0.125 + 0.0625 * t][:rows], dtype=complex)
        return a, nz
    if nmode == 'zs':                                     # every row of the noise sums to zero
        k = pat[2] if len(pat) == 3 else 0
        nz = np.zeros((rows, n), dtype=complex)
        for r in range(rows):
            c = (0.25 + 0.125j) * (1 - 3j * r)
            nz[r, k] += c
            nz[r, (k + 1) % n] -= c
        return a, nz
    raise KeyError(nmode)


def build_obj(layout, s, nz):
    from opticomlib.typing import electrical_signal, optical_signal
    if layout == 'O2':
        return optical_signal(s.copy(), None if nz is None else nz.copy())
    s1 = s[0].copy()
    n1 = None if nz is None else nz[0].copy()
    if layout == 'E':
        return electrical_signal(s1, n1)
    return optical_signal(s1, n1, n_pol=1)


# ------------------------------------------------------------------ other ways of obtaining a signal object ("forms")
# Every documented container / spelling of the constructors and objects handed out by other methods of the library.  The
# reference of a form leaf is whatever the object STORES (how a container is converted is property C01): only the shape is
# presupposed.  (form, layouts, lengths or None = every form length, data patterns)
FORM_LENGTHS = (1, 2, 3, 5, 8, 13)
FORM_LENGTHS_LONG = (127, 4097)
SCALARS = (('int', 3), ('float', 2.5), ('complex', 1 - 2j), ('bool', True), ('np.int64', np.int64(-3)), ('np.uint8', np.uint8(200)),
           ('np.float32', np.float32(2.5)), ('np.float64', np.float64(-0.1)), ('np.complex64', np.complex64(1 - 2j)),
           ('0d-array', np.array(2.5)), ('0d-int-array', np.array(7)))
FORMS = (
    ('list', LAYOUTS, None, ('ramp_i', 'ramp_r', 'ramp_c')),
    ('tuple', LAYOUTS, None, ('ramp_i', 'ramp_c')),
    ('str:space', LAYOUTS, None, ('ramp_i', 'ramp_c')),
    ('str:comma', LAYOUTS, None, ('ramp_i', 'ramp_c')),
    ('str:mixed', LAYOUTS, None, ('ramp_i', 'ramp_c')),
    ('dtype=float32', LAYOUTS, None, ('ramp_i', 'ramp_r')),
    ('dtype=complex64', LAYOUTS, None, ('ramp_c',)),
    ('dtype=int16', LAYOUTS, None, ('ramp_i',)),
    ('readonly', LAYOUTS, None, ('ramp_c',)),
    ('view', LAYOUTS, None, ('ramp_r', 'ramp_c')),           # attributes replaced by non-contiguous views holding the same values
    ('F-order', ('O2',), None, ('ramp_r', 'ramp_c')),         # column-major (2, N) input: numpy keeps the memory order
    ('dup1d', ('O2',), None, ('ramp_r', 'ramp_c')),           # 1-D input with n_pol=2: both rows equal
    ('row1', ('O2',), None, ('ramp_c',)),                     # (1, N) input: n_pol defaults to 2, both rows equal
    ('npol1of2', ('O1',), None, ('ramp_c',)),                 # (2, N) input with n_pol=1: the first row
    ('getitem', LAYOUTS, None, ('ramp_r', 'ramp_c')),         # a slice x[2:2+N] of a longer object (the library hands out views)
    ('copy', LAYOUTS, None, ('ramp_c',)),                     # x.copy()
) + tuple((f'scalar:{nm}', LAYOUTS, (1,), ('ramp_c',)) for nm, _ in SCALARS)


def _fmt(v):
    v = complex(v)
    if v.imag == 0 and float(v.real).is_integer():
        return f'{int(v.real)}'
    return f'{v.real:.12g}{v.imag:+.12g}j'


def _as_str(a, sep):
    rows = [sep.join(_fmt(v) for v in r) for r in np.atleast_2d(a)]
    return '; '.join(rows)


def build_form(form, layout, s, nz):
    """the object of a form leaf; (s, nz) are the (rows, n) arrays of the 'nd' form"""
    from opticomlib.typing import electrical_signal, optical_signal
    two = layout == 'O2'
    cls = electrical_signal if layout == 'E' else optical_signal
    kw = {} if layout == 'E' else ({'n_pol': 1} if layout == 'O1' else {})

    def shp(a):                                          # what the 'nd' form hands to the constructor
        return None if a is None else (a.copy() if two else a[0].copy())

    if form == 'nd':
        return build_obj(layout, s, nz)
    if form in ('list', 'tuple'):
        conv = (lambda a: a.tolist()) if form == 'list' else (lambda a: tuple(map(tuple, a.tolist())) if a.ndim == 2 else tuple(a.tolist()))
        return cls(conv(shp(s)), None if nz is None else conv(shp(nz)), **kw)
    if form.startswith('str:'):
        sep = {'space': ' ', 'comma': ',', 'mixed': ', '}[form[4:]]
        return cls(_as_str(shp(s), sep), None if nz is None else _as_str(shp(nz), sep), **kw)
    if form.startswith('dtype='):
        dt = np.dtype(form[6:])
        real = (lambda a: a) if dt.kind == 'c' else (lambda a: a.real)        # (a complex list cannot be cast to a real dtype)
        return cls(real(shp(s)).tolist(), None if nz is None else real(shp(nz)).tolist(), dtype=dt, **kw)
    if form == 'readonly':
        a, b = shp(s), shp(nz)
        a.flags.writeable = False
        if b is not None:
            b.flags.writeable = False
        return cls(a, b, **kw)
    if form == 'view':
        x = build_obj(layout, s, nz)
        for name in ('signal', 'noise'):
            cur = getattr(x, name)
            if cur is None:
                continue
            big = np.full(cur.shape[:-1] + (2 * cur.shape[-1] + 1,), 77, dtype=cur.dtype)
            big[..., 1::2] = cur
            setattr(x, name, big[..., 1::2])
        return x
    if form == 'F-order':
        return optical_signal(np.asfortranarray(s), None if nz is None else np.asfortranarray(nz))
    if form == 'dup1d':
        return optical_signal(s[0].copy(), None if nz is None else nz[0].copy(), n_pol=2)
    if form == 'row1':
        return optical_signal(s[:1].copy(), None if nz is None else nz[:1].copy())
    if form == 'npol1of2':
        s2 = np.array([s[0], -s[0][::-1]])
        n2 = None if nz is None else np.array([nz[0], 2 * nz[0]])
        return optical_signal(s2, n2, n_pol=1)
    if form == 'getitem':
        pad = lambda a: None if a is None else np.concatenate([np.full(a.shape[:-1] + (2,), 9, a.dtype), a, np.full(a.shape[:-1] + (3,), 5, a.dtype)], axis=-1)
        n = s.shape[1]
        return build_obj(layout, pad(s), pad(nz))[2:2 + n]
    if form == 'copy':
        return build_obj(layout, s, nz).copy()
    if form.startswith('scalar:'):
        v = dict(SCALARS)[form[7:]]
        noise = None if nz is None else 0.5
        if two:
            return optical_signal(v, n_pol=2)            # (a scalar noise is not accepted together with n_pol=2)
        return cls(v, noise, **kw)
    raise KeyError(form)


def apply_cfg(cfg_idx, clean=True):
    from opticomlib.typing import gv
    if clean:
        gv.clean()
    with warnings.catch_warnings():
        warnings.simplefilter('ignore')
        for kw in GV_CFGS[cfg_idx][0]:
            gv(**kw)
    return gv


# ------------------------------------------------------------------ helpers
def _a2(a):
    return None if a is None else np.atleast_2d(a)


def _canon(layout, x):
    s = np.asarray(x.signal)
    parts = [layout.encode(), repr(getattr(x, 'n_pol', None)).encode(), s.dtype.str.encode(), repr(s.shape).encode(),
             (s + 0.0).tobytes() if s.dtype.kind in 'fc' else s.tobytes()]
    if x.noise is None:
        parts.append(b'-')
    else:
        nz = np.asarray(x.noise)
        parts += [nz.dtype.str.encode(), (nz + 0.0).tobytes() if nz.dtype.kind in 'fc' else nz.tobytes()]
    return hashlib.blake2b(b'|'.join(parts), digest_size=10).digest()


def _rownorm(a):
    return np.sqrt(np.sum(np.abs(a) ** 2, axis=1)).astype(float)


def _sumsq(a):
    a = np.asarray(a)
    if a.dtype.kind == 'c':
        return np.sum(a.real ** 2 + a.imag ** 2, axis=-1)
    a = a.astype(float)
    return np.sum(a * a, axis=-1)


def _num(a):
    """bool / integer samples as numbers that mix with complex arithmetic (exact up to 53 bits)"""
    if a is None:
        return None
    return a if a.dtype.kind in 'fc' else a.astype(float)


def _state_eps(dt):
    """unit roundoff of the arithmetic power() is carried out in (= the dtype the samples are stored in)"""
    return max(EPS, float(np.finfo(dt).eps)) if dt.kind in 'fc' else EPS


def _fixed_width_closed(s2, n2):
    """bool / fixed-width integer samples: are signal+noise, |.| and |.|^2 all representable in the sample dtype?
    (exact Python-int arithmetic).  When they are not, numpy's own `abs(s+n)**2` wraps around (bool: saturates) and the
    statement, which names the formula but not the width it is evaluated in, is silent: power() is then not asserted."""
    info = (0, 1) if s2.dtype.kind == 'b' else (int(np.iinfo(s2.dtype).min), int(np.iinfo(s2.dtype).max))
    z = s2.ravel().astype(object)                        # exact Python ints
    if n2 is not None:
        z = z + n2.ravel().astype(object)
    if s2.size > 64:                                     # long records: the same test through the extremes
        lo, hi = min(z), max(z)
        return info[0] <= lo and hi <= info[1] and max(-lo, hi) <= info[1] and max(lo * lo, hi * hi) <= info[1]
    return all(info[0] <= v <= info[1] and abs(v) <= info[1] and v * v <= info[1] for v in z)


def _nontrivial_state(n, s2, n2):
    if n < 2:
        return False
    if n % 2 == 1 and n >= 3:
        return True
    if n2 is not None and np.any(n2 != 0):
        return True
    if s2.shape[0] == 2 and not np.array_equal(s2[0], s2[1]):
        return True
    return False


def _parity(n):
    return 'len1' if n == 1 else ('odd' if n % 2 else 'even')


class _St:
    # depth = program length; tdepth = number of transforms since the models were last equal to the implementation
    __slots__ = ('obj', 'mn_s', 'mn_n', 'me_s', 'me_n', 'depth', 'path', 'tdepth')

    def __init__(self, obj, mn_s, mn_n, me_s, me_n, depth, path, tdepth):
        self.obj, self.mn_s, self.mn_n, self.me_s, self.me_n, self.depth, self.path = obj, mn_s, mn_n, me_s, me_n, depth, path
        self.tdepth = tdepth


def check_w(x, n, layout, fs_ref, where, viol):
    """x.w(shift) against 2*pi*k/N*fs written out; returns bytes for the observation"""
    ref = 2 * math.pi * fftfreq_ref(n) * fs_ref
    out = b''
    for shift in (False, True):
        w = x.w(shift) if shift else x.w()
        r = np.roll(ref, n // 2) if shift else ref
        tag = 'shifted' if shift else 'plain'
        if not isinstance(w, np.ndarray) or w.shape != (n,):
            viol.append((f'w:shape:{layout}', f'{where}: w({shift}) has shape {getattr(w, "shape", None)}, expected ({n},)'))
            continue
        out += np.asarray(w, dtype=float).tobytes()
        bad = np.abs(w - r) > 4 * EPS * np.abs(r)
        if np.any(bad):
            i = int(np.argmax(bad))
            # is it the right multiset in the wrong order (a shift problem) or a wrong grid (an fs problem)?
            if np.all(np.abs(np.sort(w) - np.sort(r)) <= 4 * EPS * np.abs(np.sort(r))):
                viol.append((f'w:order:{tag}:{_parity(n)}', f'{where}: w({shift}) holds the right values in the wrong order: '
                             f'{w.tolist()[:6]} expected {r.tolist()[:6]} (N={n}, fs={fs_ref})'))
            else:
                viol.append((f'w:value:{tag}:{layout}', f'{where}: w({shift})[{i}]={w[i]!r} expected 2*pi*fftfreq({n})*fs={r[i]!r} '
                             f'with gv.fs={fs_ref!r} currently configured'))
    return out


def check_power(x, layout, where, viol, sfx='', stat=None):
    s2 = _a2(np.asarray(x.signal))
    n2 = _a2(x.noise)
    n = s2.shape[1]
    if s2.dtype.kind in 'biu' and (n2 is None or n2.dtype.kind in 'biu'):
        if not _fixed_width_closed(s2, n2):
            if stat is not None:
                stat['power_not_asserted_fixed_width_overflow'] = stat.get('power_not_asserted_fixed_width_overflow', 0) + 1
            return b''
    z = _num(s2) if n2 is None else _num(s2) + _num(n2)    # exact: float64 / wider holds every narrower sample value
    ref = np.asarray(_sumsq(z) / n, dtype=float)           # per row
    eps = _state_eps(s2.dtype)
    p = x.power()
    p_all = x.power('all')
    out = b''
    for name, val in (('power()', p), ("power('all')", p_all)):
        val = np.asarray(val)
        exp_shape = (2,) if layout == 'O2' else ()
        if val.shape != exp_shape:
            viol.append((f'power:shape:{layout}{sfx}', f'{where}: {name} has shape {val.shape}, expected {exp_shape} (one value per polarisation)'))
            continue
        out += val.astype(float).tobytes()
        v = np.atleast_1d(val).astype(float)
        if np.any(np.abs(v - ref) > (n + 8) * eps * np.abs(ref)):
            kind = 'nonoise' if n2 is None else ('noise-zero-sum' if np.all(np.abs(np.sum(_num(n2), axis=1)) == 0) else 'noise')
            viol.append((f'power:value:{layout}:{kind}{sfx}', f'{where}: {name}={v.tolist()} expected mean|signal+noise|^2 per row={ref.tolist()}'))
    return out


def _beq(a, b):
    """same shape, dtype and values bit for bit (long double: by value - its storage has padding bytes)"""
    a, b = np.asarray(a), np.asarray(b)
    if a.shape != b.shape or a.dtype != b.dtype:
        return False
    if a.dtype.kind in 'fc' and a.dtype.itemsize // (2 if a.dtype.kind == 'c' else 1) > 8:
        return bool(np.array_equal(a, b, equal_nan=True) and np.array_equal(np.signbit(a.real), np.signbit(b.real)))
    return a.tobytes() == b.tobytes()


def _raises(fn):
    try:
        r = fn()
    except Exception as e:                                  # noqa: BLE001 - the type is judged by the caller
        return e, None
    return None, r


def check_by(x, layout, where, viol, sfx='', stat=None, extended=False):
    """the `by` argument of power() and abs(): 'signal' -> the signal alone, 'noise' -> the noise alone, 'all' -> signal+noise
    (docstrings of power()/abs(): "defines from which attribute to obtain the power / absolute value").
    extended: also letter case, keyword spelling and invalid values."""
    s2 = _a2(np.asarray(x.signal))
    n2 = _a2(x.noise)
    n = s2.shape[1]
    eps = _state_eps(s2.dtype)
    fixed = s2.dtype.kind in 'biu'
    exp_shape = (2,) if layout == 'O2' else ()
    out = b''
    got = {}
    for by in BY_VALID:
        if by == 'noise' and n2 is None:
            # no noise stored: the docstrings do not say what 'noise' means then; a non-zero value would be wrong under any reading
            for fname in ('power', 'abs'):
                e, r = _raises(lambda: getattr(x, fname)('noise'))
                if e is None and np.any(np.asarray(r) != 0):
                    viol.append((f'{fname}:by=noise:nonzero-without-noise:{layout}{sfx}', f"{where}: {fname}('noise')={np.asarray(r).tolist()[:6]} on an object without noise"))
            continue
        parts = {'signal': (s2, None), 'noise': (n2, None), 'all': (s2, n2)}[by]
        if fixed and not _fixed_width_closed(*parts):
            if stat is not None:
                stat['by_not_asserted_fixed_width_overflow'] = stat.get('by_not_asserted_fixed_width_overflow', 0) + 1
            continue
        z = _num(parts[0]) if parts[1] is None else _num(parts[0]) + _num(parts[1])
        zl = z.astype(_CLD)
        ref_abs = np.sqrt(zl.real ** 2 + zl.imag ** 2)      # long double, written out (not numpy.abs)
        ref_pow = np.asarray(_sumsq(z) / n, dtype=float)
        # --- abs(by): element-wise, same shape as the stored signal
        a = np.asarray(x.abs(by))
        if a.shape != np.shape(x.signal):
            viol.append((f'abs:by={by}:shape:{layout}{sfx}', f"{where}: abs('{by}') has shape {a.shape}, expected {np.shape(x.signal)}"))
        else:
            got['abs', by] = a
            out += a.astype(float).tobytes()
            # one rounding of the sum is already in z; |.| of a complex number: hypot, a few ulp
            if np.any(np.abs(_a2(a).astype(_LD) - ref_abs) > 4 * eps * ref_abs):
                i = int(np.argmax(np.abs(_a2(a).astype(_LD) - ref_abs) - 4 * eps * ref_abs))
                viol.append((f'abs:by={by}:value:{layout}{sfx}', f"{where}: abs('{by}').flat[{i}]={_a2(a).ravel()[i]!r} expected |{by if by != 'all' else 'signal+noise'}|={float(ref_abs.ravel()[i])!r}"))
        # --- power(by): mean of |.|^2 per polarisation
        p = np.asarray(x.power(by))
        if p.shape != exp_shape:
            viol.append((f'power:by={by}:shape:{layout}{sfx}', f"{where}: power('{by}') has shape {p.shape}, expected {exp_shape}"))
        else:
            got['power', by] = p
            out += p.astype(float).tobytes()
            v = np.atleast_1d(p).astype(float)
            if by != 'all' and np.any(np.abs(v - ref_pow) > (n + 8) * eps * np.abs(ref_pow)):   # ('all' is asserted by check_power under its own keys)
                viol.append((f'power:by={by}:value:{layout}{sfx}', f"{where}: power('{by}')={v.tolist()} expected mean|{by}|^2 per row={ref_pow.tolist()}"))
    if not extended:
        return out
    for fname in ('power', 'abs'):
        f = getattr(x, fname)
        # keyword spelling and the default
        for by in BY_VALID:
            if (fname, by) not in got:
                continue
            variants = [('kw', lambda: f(by=by)), ('np.str_', lambda: f(np.str_(by)))] + ([('default', lambda: f())] if by == 'all' else [])
            for nm, call in variants:
                r = np.asarray(call())
                if not _beq(r, got[fname, by]):
                    viol.append((f'spelling:{fname}:by:{nm}', f"{where}: {fname}() called with by='{by}' spelled as {nm} gives {r.tolist()}, positional '{by}' gives {got[fname, by].tolist()}"))
        # letter case: undocumented -> rejected, or the meaning of the lower-case word
        for by in BY_CASE:
            if (fname, by.lower()) not in got:
                continue
            e, r = _raises(lambda: f(by))
            if e is not None:
                if not isinstance(e, (ValueError, TypeError)):
                    viol.append((f'by:case:wrong-exception:{fname}', f"{where}: {fname}('{by}') raised {type(e).__name__}: {e}"))
                continue
            r = np.asarray(r)
            if not _beq(r, got[fname, by.lower()]):
                viol.append((f'by:case:other-meaning:{fname}', f"{where}: {fname}('{by}')={r.tolist()[:6]} is accepted but differs from {fname}('{by.lower()}')={got[fname, by.lower()].tolist()[:6]}"))
            if stat is not None:
                stat['by_case_accepted'] = stat.get('by_case_accepted', 0) + 1
        # invalid values must not be answered
        for bad in BY_BAD_STR + BY_BAD_OTHER:
            e, r = _raises(lambda: f(bad))
            isstr = isinstance(bad, str)
            if e is None:
                viol.append((f'by:invalid-accepted:{fname}:{"str" if isstr else "non-str"}', f'{where}: {fname}({bad!r}) returned {np.asarray(r).tolist()[:6]} instead of raising'))
            elif isstr and not isinstance(e, (ValueError, TypeError)):
                viol.append((f'by:invalid:wrong-exception:{fname}', f'{where}: {fname}({bad!r}) raised {type(e).__name__}: {e}'))
            elif stat is not None:
                stat['invalid_by_rejected'] = stat.get('invalid_by_rejected', 0) + 1
    return out


def check_len(x, n, layout, where, viol):
    """len() / len(x): the number of samples per polarisation"""
    for nm, val in (('x.len()', x.len()), ('len(x)', len(x))):
        if val != n:
            viol.append((f'len:{layout}:{_parity(n)}', f'{where}: {nm}={val!r}, the record has {n} samples per polarisation (signal shape {np.shape(x.signal)})'))
    return b''


# ------------------------------------------------------------------ one state expansion
def _cmp_model(y_arr, mn, me, depth, n, key, where, viol, stat, eps=EPS, sub=None):
    """implementation array vs both models; returns (max error in units of eps*L*||x||2, agreed?)
    me is None (lengths > EXACT_FULL_MAX): the exact DFT of the ACTUAL operand sub=(operand, dom, shift) at the positions
    `_bins(n)` - one transform, so one unit of the allowance - while the numpy.fft model stays chained from the leaf."""
    y2 = _a2(np.asarray(y_arr))
    lg = max(1.0, math.log2(n))
    if me is not None:
        nrm = _rownorm(me)
        d_e = depth
        err_e = np.max(np.abs(y2.astype(_CLD) - me), axis=1).astype(float)
    else:
        op, dom, shift = sub
        pos = _bins(n)
        nrm = _rownorm(op) * (math.sqrt(n) if dom != 't' else 1 / math.sqrt(n))    # ||output||2 by Parseval
        d_e = 1
        err_e = np.max(np.abs(y2[:, pos].astype(_CLD) - ex_bins(op, dom, shift, pos)), axis=1).astype(float)
        stat['exact_bins_compared'] = stat.get('exact_bins_compared', 0) + len(pos) * y2.shape[0]
    tol = depth * K_FFT * eps * lg * nrm
    tol_e = d_e * K_FFT * eps * lg * nrm
    err_n = np.max(np.abs(y2 - mn), axis=1)
    if y2.tobytes() == mn.tobytes():
        stat['bitwise_eq_numpy_model'] = stat.get('bitwise_eq_numpy_model', 0) + 1
    ok = not (np.any(err_e > tol_e) or np.any(err_n > 2 * tol))
    if not ok:
        r = int(np.argmax(np.maximum(err_e - tol_e, err_n - 2 * tol)))
        viol.append((key, f'{where}: row {r}: |impl-exactDFT|={err_e[r]:.3e} (allowed {tol_e[r]:.3e}), |impl-numpy.fft model|={err_n[r]:.3e} '
                          f'(allowed {2 * tol[r]:.3e}); allowance of one transform {K_FFT:g}*eps*max(1,log2 N)*||x||2, eps={eps:.3g}, {depth} transform(s) '
                          f'since the leaf; impl={y2[r].tolist()[:5]} model={mn[r].tolist()[:5]}'))
    with np.errstate(all='ignore'):
        ratio = np.where(nrm > 0, err_e / (eps * lg * np.where(nrm > 0, nrm, 1.0) * d_e), 0.0)
    return float(np.max(ratio)), ok


def _expand(st, layout, n, leafdesc, viol_out, stat, eps=EPS, sfx=''):
    """apply all six operations to the state; return list of (op, result object, models...)
    eps: unit roundoff demanded on this leaf (`_leaf_eps`); sfx: dtype-class suffix of every violation key"""
    succ, maxratio, viol = _expand0(st, layout, n, leafdesc, stat, eps)
    viol_out.extend((k + sfx, m) for k, m in viol)
    return succ, maxratio


def _expand0(st, layout, n, leafdesc, stat, eps):
    viol = []
    xp = st.obj
    snap = freeze(xp)
    where0 = f'{leafdesc} program={st.path}'
    ps2, pn2 = _num(_a2(np.asarray(xp.signal))), _num(_a2(xp.noise))
    lg = max(1.0, math.log2(n))
    full = n <= EXACT_FULL_MAX                              # chained exact model | exact DFT of the actual operand at `_bins(n)`
    ps_ld = None if full else ps2.astype(_CLD)
    pn_ld = None if full or pn2 is None else pn2.astype(_CLD)
    res_by_op = {}
    succ = []
    maxratio = 0.0
    for op in OPS:
        dom, shift = op
        fwd = dom in ('w', 'f')
        dirn = 'fwd' if fwd else 'inv'
        where = f'{where0} + {op}'
        y = xp(dom, shift)
        stat['transitions'] = stat.get('transitions', 0) + 1
        res_by_op[op] = y
        # --- a new object of the same class / n_pol / shape, nothing shared, operand untouched
        if y is xp:
            viol.append((f'new-object:identity:{layout}', f'{where}: returned the operand itself'))
        if type(y) is not type(xp):
            viol.append((f'new-object:class:{layout}', f'{where}: result is {type(y).__name__}, operand is {type(xp).__name__}'))
        if getattr(y, 'n_pol', None) != getattr(xp, 'n_pol', None):
            viol.append((f'new-object:n_pol:{layout}', f'{where}: n_pol {getattr(xp, "n_pol", None)} -> {getattr(y, "n_pol", None)}'))
        if np.shape(y.signal) != np.shape(xp.signal):
            viol.append((f'new-object:shape:{layout}', f'{where}: signal shape {np.shape(xp.signal)} -> {np.shape(y.signal)}'))
            continue
        for a in (y.signal, y.noise):
            for b in (xp.signal, xp.noise):
                if isinstance(a, np.ndarray) and isinstance(b, np.ndarray) and np.shares_memory(a, b):
                    viol.append((f'new-object:aliasing:{layout}', f'{where}: result shares memory with the operand'))
        if not unchanged(xp, snap):
            viol.append((f'operand-modified:{layout}', f'{where}: operand buffers changed'))
        # --- models
        mn_s, mn_n = np_step(st.mn_s, dom, shift), np_step(st.mn_n, dom, shift)
        me_s, me_n = (ex_step(st.me_s, dom, shift), ex_step(st.me_n, dom, shift)) if full else (None, None)
        d = st.tdepth + 1
        sh = '+shift' if shift else ''
        par = f':{_parity(n)}' if shift else ''
        mr, agreed = _cmp_model(y.signal, mn_s, me_s, d, n, f'value:{dirn}{sh}:signal:{layout}{par}', where, viol, stat, eps,
                                sub=(ps_ld, dom, shift))
        maxratio = max(maxratio, mr)
        noise_ok = True
        if st.mn_n is not None:
            if y.noise is None:
                viol.append((f'noise-dropped:{dirn}{sh}:{layout}', f'{where}: operand has noise, result has none'))
                noise_ok = False
            elif np.shape(y.noise) != np.shape(xp.noise):
                viol.append((f'new-object:shape:{layout}', f'{where}: noise shape {np.shape(xp.noise)} -> {np.shape(y.noise)}'))
                noise_ok = False
            else:
                mr, ok_n = _cmp_model(y.noise, mn_n, me_n, d, n, f'value:{dirn}{sh}:noise:{layout}{par}', where, viol, stat, eps,
                                      sub=(pn_ld, dom, shift))
                maxratio = max(maxratio, mr)
                agreed = agreed and ok_n
        elif y.noise is not None and np.any(np.asarray(y.noise) != 0):
            viol.append((f'noise-invented:{dirn}{sh}:{layout}', f'{where}: operand has no noise, result has non-zero noise'))
            noise_ok = False
        # --- Parseval per row (implementation against its own operand)
        scale = float(n) if fwd else 1.0 / n
        for nm, ya, pa in (('signal', y.signal, ps2), ('noise', y.noise if noise_ok else None, pn2)):
            if ya is None or pa is None:
                continue
            lhs = np.atleast_1d(_sumsq(ya))
            rhs = np.atleast_1d(_sumsq(pa)) * scale
            ptol = (2 * K_FFT * lg + n + 8) * eps * rhs
            if np.any(np.abs(lhs - rhs) > ptol):
                r = int(np.argmax(np.abs(lhs - rhs) - ptol))
                viol.append((f'parseval:{dirn}:{nm}:{layout}', f'{where}: row {r}: sum|out|^2={lhs[r]!r} expected '
                             f'{"N*" if fwd else "1/N*"}sum|in|^2={rhs[r]!r} (N={n})'))
            stat['parseval_rows'] = stat.get('parseval_rows', 0) + len(lhs)
        if agreed and noise_ok:
            succ.append((op, y, mn_s, mn_n, me_s, me_n, d))
        else:
            # resynchronise: a reported disagreement must not be reported again on every deeper program, so the
            # successor's models ADOPT the implementation's arrays (deeper transitions stay meaningful)
            stat['resync'] = stat.get('resync', 0) + 1
            ys2, yn2 = _a2(np.asarray(y.signal)), _a2(y.noise)
            succ.append((op, y, ys2.astype(complex), None if yn2 is None else yn2.astype(complex),
                         ys2.astype(_CLD) if full else None, None if yn2 is None or not full else yn2.astype(_CLD), 0))
        # --- asked again, the object answers the same, with another new object (states of depth <= 1)
        if st.depth <= 1:
            y_again = xp(dom, shift)
            stat['repeated_calls'] = stat.get('repeated_calls', 0) + 1
            if not _same_result(y_again, y):
                viol.append((f'repeat:differs:{layout}', f'{where}: the same call on the same (unchanged) object gave a different result the second time'))
            if y_again is y or any(isinstance(a, np.ndarray) and isinstance(b, np.ndarray) and np.shares_memory(a, b)
                                   for a in (y.signal, y.noise) for b in (y_again.signal, y_again.noise)):
                viol.append((f'repeat:aliasing:{layout}', f'{where}: two calls returned the same object / shared buffers'))

    # --- 'f' and 'w' are the same transform
    for shift in (False, True):
        a, b = res_by_op[('w', shift)], res_by_op[('f', shift)]
        same = np.asarray(a.signal).tobytes() == np.asarray(b.signal).tobytes() and \
            ((a.noise is None and b.noise is None) or (a.noise is not None and b.noise is not None and
                                                       np.asarray(a.noise).tobytes() == np.asarray(b.noise).tobytes()))
        if not same:
            viol.append((f'f!=w:{layout}', f"{where0}: x('f',{shift}) and x('w',{shift}) differ"))
    # --- shift only reorders: the OPPOSITE numpy shift recovers the unshifted transform, bit for bit
    for dom in ('w', 'f', 't'):
        fwd = dom != 't'
        ys, yu = res_by_op[(dom, True)], res_by_op[(dom, False)]
        undo = np.fft.ifftshift if fwd else np.fft.fftshift
        for nm in ('signal', 'noise'):
            a, b = getattr(ys, nm), getattr(yu, nm)
            if a is None or b is None or np.shape(a) != np.shape(b):
                continue
            stat['shift_checks'] = stat.get('shift_checks', 0) + 1
            if n % 2 and n >= 3:
                stat['shift_checks_odd'] = stat.get('shift_checks_odd', 0) + 1
            if undo(np.asarray(a), axes=-1).tobytes() != np.asarray(b).tobytes():
                viol.append((f'shift:{"fwd" if fwd else "inv"}:{nm}:{layout}:{_parity(n)}',
                             f"{where0}: {undo.__name__}(x('{dom}',True).{nm}) != x('{dom}').{nm} bitwise: "
                             f"shifted={np.asarray(a).tolist()[:6]} unshifted={np.asarray(b).tolist()[:6]}"))
    # --- mutual inverses: x('w')('t') ~ x and x('t')('w') ~ x (implementation against itself)
    # ('f' results are bitwise those of 'w' - checked above - so the 'f' round trips are run from the leaf only)
    for first, second, nm2 in (('w', 't', 'wt'), ('t', 'w', 'tw'), ('f', 't', 'ft'), ('t', 'f', 'tf'))[:4 if st.depth == 0 else 2]:
        mid = res_by_op[(first, False)]
        if type(mid) is not type(xp) or np.shape(mid.signal) != np.shape(xp.signal):
            continue
        rt = mid(second, False)
        stat['roundtrips'] = stat.get('roundtrips', 0) + 1
        for nm, ra, pa in (('signal', rt.signal, ps2), ('noise', rt.noise, pn2)):
            if pa is None:
                continue
            if ra is None or np.shape(_a2(ra)) != pa.shape:
                viol.append((f'roundtrip:{nm2}:{nm}:{layout}', f'{where0}: {nm} lost or reshaped by the round trip'))
                continue
            err = np.max(np.abs(_a2(np.asarray(ra)) - pa), axis=1)
            tol = 2 * K_FFT * eps * lg * np.sqrt(np.atleast_1d(_sumsq(pa))).astype(float)
            if np.any(err > tol):
                r = int(np.argmax(err - tol))
                viol.append((f'roundtrip:{nm2}:{nm}:{layout}', f"{where0}: x('{first}')('{second}').{nm} differs from x.{nm} by {err[r]:.3e} "
                             f"in row {r} (allowed {tol[r]:.3e}); got {_a2(np.asarray(ra))[r].tolist()[:5]} expected {pa[r].tolist()[:5]}"))
            with np.errstate(all='ignore'):
                rr = np.where(tol > 0, err / np.where(tol > 0, tol, 1.0) * 2 * K_FFT, 0.0)
            maxratio = max(maxratio, float(np.max(rr)) / 2)
    return succ, maxratio, viol


# ------------------------------------------------------------------ case: BFS from one leaf
def _check_state(st, n, layout, fs_now, where, viol, sfx, stat, by_depth=1):
    """state invariants: len(), w() (depth <= W_DEPTH), power(), and the `by` lattice of power()/abs() (depth <= by_depth)"""
    out = check_len(st.obj, n, layout, where, viol)
    if st.depth <= W_DEPTH:
        out += check_w(st.obj, n, layout, fs_now, where, viol)
    out += check_power(st.obj, layout, where, viol, sfx, stat)
    if st.depth <= by_depth:
        out += check_by(st.obj, layout, where, viol, sfx, stat, extended=st.depth <= BY_DEPTH)
    return out


def _same_result(a, b):
    return type(a) is type(b) and _beq(a.signal, b.signal) and (a.noise is None) == (b.noise is None) and (a.noise is None or _beq(a.noise, b.noise))


def check_spellings(x, layout, where, viol, stat):
    """the documented parameter names as keywords; numpy's own str / bool scalars for the str / bool arguments"""
    for dom in ('w', 't'):
        for shift in (False, True):
            base = x(dom, shift)
            variants = (('domain=,shift=', lambda: x(domain=dom, shift=shift)), ('shift=', lambda: x(dom, shift=shift)),
                        ('np.str_', lambda: x(np.str_(dom), shift)), ('np.bool_', lambda: x(dom, np.bool_(shift))))
            if not shift:
                variants += (('shift-omitted', lambda: x(dom)), ('domain=', lambda: x(domain=dom)))
            for nm, call in variants:
                y = call()
                stat['spellings'] = stat.get('spellings', 0) + 1
                if not _same_result(y, base):
                    viol.append((f'spelling:call:{nm}:{layout}', f"{where}: x('{dom}', {shift}) spelled as {nm} gives a different result than the positional call"))
    w0, w1 = x.w(), x.w(True)
    for nm, call, ref in (('w(shift=True)', lambda: x.w(shift=True), w1), ('w(np.True_)', lambda: x.w(np.bool_(True)), w1),
                          ('w(False)', lambda: x.w(False), w0), ('w(shift=False)', lambda: x.w(shift=False), w0),
                          ('w(np.False_)', lambda: x.w(np.bool_(False)), w0)):
        r = np.asarray(call())
        if not _beq(r, ref):
            viol.append((f'spelling:w:{layout}', f'{where}: {nm} differs from the positional call'))


def explore(case):
    """case = dict(layout, n, pat, nmode, cfg, depth, seed[, form])"""
    from opticomlib.typing import gv
    layout, n, pat, nmode = case['layout'], case['n'], tuple(case['pat']), case['nmode']
    depth, seed, cfg = case['depth'], case['seed'], case['cfg']
    form = case.get('form', 'nd')
    by_depth = case.get('by_depth', 1)                      # power(by)/abs(by) on the states of depth <= by_depth
    viol, stat = [], {}
    dtname = pat[1] if pat[0] == 'dt' else None
    leafdesc = f'leaf=({layout}, N={n}, data={pat}, noise={nmode}, gv={GV_CFGS[cfg][0]}{"" if form == "nd" else ", built as " + form})'
    gv_reset()                                              # object is built under the default grid ...
    s, nz = leaf_arrays(layout, n, pat, nmode, seed)
    x = build_form(form, layout, s, nz)
    apply_cfg(cfg)                                          # ... and used under another one
    fs_now = gv.fs
    if abs(fs_now - GV_CFGS[cfg][1]) > 1e-12 * fs_now:
        raise AssertionError(f'harness: gv cfg {cfg} gives fs={fs_now}')
    gsnap = gv_snapshot()

    xs2, xn2 = _a2(np.asarray(x.signal)), _a2(x.noise)
    stored = xs2.dtype
    # unit roundoff demanded / class suffix of the violation keys: by the dtype the samples are STORED in
    eps = _leaf_eps(stored.name)
    sfx = _dt_class(stored.name) if dtname is not None else ''
    if form == 'nd':
        if xs2.shape != s.shape or not np.array_equal(xs2, s) or (nz is None) != (xn2 is None) or (nz is not None and not np.array_equal(xn2, nz)):
            viol.append((f'leaf:constructor:{layout}{sfx}', f'{leafdesc}: constructor did not store the given arrays'))
            return res(viol=viol, obs='ctor')
        if dtname is not None and nmode != 'xdt' and str(stored) != str(np.dtype(dtname)):
            stat['leaf_dtype_changed_by_constructor'] = 1      # not part of the statement; recorded only
    else:
        # how a container is converted is not this property's business: the reference is what the object stores
        if xs2.shape != s.shape or (xn2 is not None and xn2.shape != s.shape) or not isinstance(x.signal, np.ndarray):
            return res(viol=[], obs='form-shape', stats={'form_leaf_with_unexpected_shape': 1})
        stat['form_leaves'] = 1
    full = n <= EXACT_FULL_MAX
    root = _St(x, xs2.astype(complex), None if xn2 is None else xn2.astype(complex),
               xs2.astype(_CLD) if full else None, None if xn2 is None or not full else xn2.astype(_CLD), 0, [], 0)
    seen = {_canon(layout, x): 0}
    order = [(_canon(layout, x), _nontrivial_state(n, xs2, xn2))]
    h = hashlib.sha256()
    frontier = [root]
    maxratio = 0.0
    level = 0
    # invalid domains are rejected (root state)
    for bad in BAD_DOMAINS:
        try:
            r = x(bad)
        except (ValueError, TypeError):
            stat['invalid_domain_rejected'] = stat.get('invalid_domain_rejected', 0) + 1
        else:
            viol.append((f'invalid-domain:accepted:{layout}{sfx}', f'{leafdesc}: x({bad!r}) returned {type(r).__name__} instead of raising ValueError'))
    if pat[0] not in ('e', 'ec', 'je'):                     # spellings do not depend on the data: field members only
        check_spellings(x, layout, leafdesc, viol, stat)
    while frontier and level < depth:
        nxt = []
        for st in frontier:
            where = f'{leafdesc} program={st.path}'
            h.update(_check_state(st, n, layout, fs_now, where, viol, sfx, stat, by_depth))
            succ, mr = _expand(st, layout, n, leafdesc, viol, stat, eps, sfx)
            maxratio = max(maxratio, mr)
            for op, y, mn_s, mn_n, me_s, me_n, td in succ:
                ck = _canon(layout, y)
                h.update(ck)
                if ck not in seen:
                    seen[ck] = st.depth + 1
                    order.append((ck, _nontrivial_state(n, _a2(np.asarray(y.signal)), _a2(y.noise))))
                    nxt.append(_St(y, mn_s, mn_n, me_s, me_n, st.depth + 1, st.path + [op], td))
        frontier = nxt
        level += 1
    # states of the last level: state invariants only (w, power)
    for st in frontier:
        where = f'{leafdesc} program={st.path}'
        h.update(_check_state(st, n, layout, fs_now, where, viol, sfx, stat, by_depth))
    if gv_snapshot() != gsnap:
        viol.append(('gv-modified', f'{leafdesc}: gv changed while transforming / calling w() / power()'))
    gv.clean()
    stat['states_local'] = len(seen)
    # keep the first violation of each key only (same key = same clause and input class; BFS order = shortest program)
    first = {}
    for k, m in viol:
        first.setdefault(k, m)
    return res(viol=list(first.items()), obs=h.digest(), stats=stat,
               payload={'states': order, 'transitions': stat.get('transitions', 0), 'maxratio': maxratio, 'n': n})


# ------------------------------------------------------------------ case: w() follows the gv in force at call time
def wgrid(case):
    """case = dict(layout, n, nmode, a, b, seed)"""
    from opticomlib.typing import gv
    layout, n, nmode, ia, ib, seed = case['layout'], case['n'], case['nmode'], case['a'], case['b'], case['seed']
    viol = []
    desc = f'(layout={layout}, N={n}, noise={nmode}, gv at construction={GV_CFGS[ia][0]}, gv at call={GV_CFGS[ib][0]})'
    h = hashlib.sha256()
    apply_cfg(ia)
    s, nz = leaf_arrays(layout, n, ('ramp_c',), nmode, seed)
    x = build_obj(layout, s, nz)
    fs_a = gv.fs
    h.update(check_w(x, n, layout, GV_CFGS[ia][1], f'{desc} [called under the construction grid]', viol))
    # 1. later gv calls WITHOUT clean(): the rate in force is whatever gv says now
    rejected = 0
    try:
        apply_cfg(ib, clean=False)
    except ArithmeticError:
        # gv itself fails on some histories (fs alone below R/2 with a slot count set: gv.sps becomes 0 -> division by zero while
        # rebuilding gv.dw).  What gv does with its arguments is property C14; the grid left behind is still "currently configured".
        rejected = 1
    fs_b = gv.fs
    g0 = gv_snapshot()
    h.update(check_w(x, n, layout, fs_b, f'{desc} [gv reconfigured without clean(); gv.fs={fs_b!r}]', viol))
    y = x('w', True)
    h.update(check_w(y, n, layout, fs_b, f"{desc} [on x('w',True); gv.fs={fs_b!r}]", viol))
    if gv_snapshot() != g0:
        viol.append(('gv-modified', f'{desc}: gv changed by w()/transform'))
    # 2. clean() + configuration b: a-priori rate
    apply_cfg(ib)
    if abs(gv.fs - GV_CFGS[ib][1]) > 1e-12 * gv.fs:
        raise AssertionError(f'harness: gv cfg {ib} gives fs={gv.fs}')
    h.update(check_w(x, n, layout, GV_CFGS[ib][1], f'{desc} [gv cleaned and reconfigured]', viol))
    y = x('t')
    h.update(check_w(y, n, layout, GV_CFGS[ib][1], f"{desc} [on x('t') after reconfiguration]", viol))
    h.update(check_power(x, layout, desc, viol))
    gv.clean()
    first = {}
    for k, m in viol:
        first.setdefault(k, m)
    return res(viol=list(first.items()), obs=h.digest(), nontrivial=(fs_a != fs_b) and n >= 2,
               stats={'w_calls': 10, 'fs_changed_between_construction_and_call': int(fs_a != fs_b),
                      'gv_raised_on_reconfiguration_without_clean': rejected})


# ------------------------------------------------------------------ driver
def depth_for(tier, n):
    if n > EXACT_FULL_MAX:                                    # long records: every state costs O(N log N) + O(16 N) long-double work
        return 1 if tier == 'quick' or n > 5000 else 2
    if tier == 'quick':
        return 2
    return 4 if n in LENGTHS_DEPTH4 else 3


def leaves(tier, seed):
    thorough = tier == 'thorough'
    lengths = LENGTHS_QUICK + (LENGTHS_EXTRA if thorough else ())
    longs = LONG_QUICK + (LONG_EXTRA if thorough else ())
    out = []
    i = 0
    for n in sorted(lengths):
        for layout in LAYOUTS:
            for nmode in NMODES_FIELD:
                for pat in patterns(layout, n):
                    if pat[0] == 'ramp_i' and nmode not in ('none', 'zero'):
                        continue                              # int dtype only exists without (complex) noise
                    if nmode == 'zero' and pat[0] in ('e', 'ec', 'je'):
                        continue                              # all-zero noise: field members only
                    out.append({'layout': layout, 'n': n, 'pat': pat, 'nmode': nmode, 'cfg': i % len(GV_CFGS),
                                'depth': depth_for(tier, n), 'seed': seed})
                    i += 1
    # sample-dtype axis: dtype x kind x layout x length x (noise of the same dtype absent | present [| alone] | of another dtype)
    j = 0
    for n in sorted(lengths):
        for layout in LAYOUTS:
            for nmode in DT_NMODES + ('xdt',):
                for dtname in DTYPES:
                    for kind in (XDT_KINDS if nmode == 'xdt' else DT_KINDS):
                        out.append({'layout': layout, 'n': n, 'pat': ('dt', dtname, kind), 'nmode': nmode, 'cfg': j % len(GV_CFGS),
                                    'depth': DT_DEPTH_QUICK if tier == 'quick' else depth_for(tier, n), 'seed': seed})
                        j += 1
    # long lengths: reduced data alphabet, all layouts, all noise modes, one member per dtype class
    k = 0
    for n in sorted(longs):
        for layout in LAYOUTS:
            for nmode in NMODES_FIELD:
                for pat in long_patterns(layout, n):
                    if pat[0] == 'ramp_i' and nmode not in ('none', 'zero'):
                        continue
                    if nmode == 'zero' and pat[0] in ('e', 'ec', 'je'):
                        continue
                    if nmode == 'swap' and pat[0] in ('e', 'ec', 'je') and n > EXACT_FULL_MAX:
                        continue                              # (the noise path of the long records is exercised by the field members)
                    if n > LONG_THIN and (nmode == 'swap' or (nmode == 'zero' and pat[0] != 'ramp_c')):
                        continue
                    out.append({'layout': layout, 'n': n, 'pat': pat, 'nmode': nmode, 'cfg': k % len(GV_CFGS),
                                'depth': 2 if (n <= EXACT_FULL_MAX and not thorough) else depth_for(tier, n), 'seed': seed})
                    k += 1
            for nmode in ('none', 'mix'):
                for dtname, kind in LONG_DT:
                    out.append({'layout': layout, 'n': n, 'pat': ('dt', dtname, kind), 'nmode': nmode, 'cfg': k % len(GV_CFGS),
                                'depth': 1 if not thorough else min(2, depth_for(tier, n)), 'seed': seed})
                    k += 1
    # forms: other containers / spellings of the constructor, objects handed out by other methods
    m = 0
    for n in FORM_LENGTHS + FORM_LENGTHS_LONG:
        for form, layouts, only_n, pats in FORMS:
            if only_n is not None and n not in only_n:
                continue
            if form.startswith('str:') and n > 100:
                continue
            for layout in layouts:
                for pname in pats:
                    for nmode in ('none', 'mix'):
                        if form.startswith('scalar:') and layout == 'O2' and nmode != 'none':
                            continue
                        out.append({'layout': layout, 'n': n, 'pat': (pname,), 'nmode': nmode, 'cfg': m % len(GV_CFGS), 'form': form,
                                    'depth': 1 if not thorough else min(2, depth_for(tier, n)), 'seed': seed})
                        m += 1
    for c in out:
        c['by_depth'] = 2 if thorough else 1
    out.sort(key=lambda c: c['n'])                            # stable: shortest first, float64/complex128 members before the dtype axis
    return out


def run(ctx):
    depth = 2 if ctx.quick else 4
    lengths = LENGTHS_QUICK + (() if ctx.quick else LENGTHS_EXTRA)
    longs = LONG_QUICK + (() if ctx.quick else LONG_EXTRA)
    ctx.rule(f'xf: for every leaf = (class/layout in {LAYOUTS}) x (length in {sorted(lengths)}) x (data = FULL BASIS e_k and j*e_k on every '
             f'row, real and complex dtype, + real/int/complex ramps + one VERIF_SEED-selected random field + scale members 1e-12, 1e-10, '
             f'1e6, 1e-9 quadrature, DC 1e6 with a 1e-3 variation) x (noise in {NMODES}; field members also with an all-zero noise array), and '
             f'(sample dtype in {DTYPES}) x (ramp | both limits of the integer type resp. thirds/sevenths | last basis element | seeded field) '
             f'x (same-dtype noise in {DT_NMODES} | noise handed over in another dtype) on every layout and length'
             f'{f" (programs of depth <= {DT_DEPTH_QUICK} on these leaves: every result is complex whatever the sample dtype)" if ctx.quick else ""}; '
             f'a BFS over all programs of depth <= {depth}{"" if ctx.quick else f" (depth <= 3 for the lengths {sorted(set(lengths) - set(LENGTHS_DEPTH4))})"} over the 6 operations (w|f|t) x (shift False|True), de-duplicated by '
             f'canonical object state, executed on the real objects in lock-step with a numpy.fft row-wise model and an exact '
             f'80-bit DFT model of the (signal, noise) pair; every transition: new object/class/n_pol/shape/no aliasing/operand '
             f'unchanged, values vs both models, Parseval per row, f==w bitwise, opposite numpy shift recovers the unshifted '
             f'result bitwise, round trips wt/tw (ft/tf from the leaf), on states of depth <= 1 the same call repeated (same bytes, another new object); '
             f'every state: len(), power(); states of depth <= {1 if ctx.quick else 2}: power(by)/abs(by) for by in {BY_VALID} (leaf state: also letter case {BY_CASE}, keyword / numpy-str '
             f'spelling, {len(BY_BAD_STR) + len(BY_BAD_OTHER)} invalid values), and w(), w(True) on states of depth <= 2; field leaves: keyword / numpy-scalar spellings of '
             f'domain and shift; {len(BAD_DOMAINS)} invalid domains on every leaf; objects are built under the default '
             f'gv and used under one of {len(GV_CFGS)} other gv configurations')
    ctx.rule(f'xf, long lengths {sorted(longs)}: layouts x (basis elements at both ends and around the middle of every row + every field member) x noise modes '
             f'+ one member per sample-dtype class {[d for d, _ in LONG_DT]}; programs of depth <= 2 up to length {EXACT_FULL_MAX} '
             f'(full exact model), above: depth <= {1 if ctx.quick else "2 (1 beyond 5000)"} with the exact DFT of the actual operand evaluated at {len(_bins(4096))} output positions '
             f'(both ends, around the middle, spread) and the numpy.fft model at every position')
    ctx.rule(f'xf, forms: {len(FORMS)} other ways of obtaining the object (list, tuple, str with three separator styles, dtype=, read-only input, '
             f'non-contiguous views as attributes, column-major 2-pol input, 1-D / (1,N) input duplicated to two polarisations, (2,N) with n_pol=1, '
             f'a slice of a longer object, copy(), {len(SCALARS)} scalar types for length 1) x lengths {FORM_LENGTHS + FORM_LENGTHS_LONG} x noise (none|mix); '
             f'the reference is what the object stores')
    ctx.rule(f'wgrid: full product layout x length (short lengths + {WGRID_LONG}) x noise(none|mix) x gv configuration at construction x gv configuration at call '
             f'({len(GV_CFGS)}^2 ordered pairs, with and without clean() in between); gv configurations include non-integer fs/R given as (R,fs), '
             f'(sps,fs), fs alone, a slot count N (gv.w of 3, 5, 16, 4096 entries), another wavelength, a custom attribute, two-call histories')
    ctx.assume('numpy.fft.fft/ifft/fftshift/ifftshift are trusted only as the reference NAMED by the statement; values are also compared '
               'with an exact DFT computed from a long-double DFT matrix, and shifts with explicit np.roll')
    ctx.assume(f'rounding allowance of one transform: {K_FFT:g}*eps*max(1,log2 N)*||x||_2 per element (grows linearly with program depth); '
               'the largest observed error in these units is recorded in coverage.max_error_units')
    ctx.assume(f'rounding unit eps: 2^-52 for samples stored as bool, integers of every width, float64, complex128 and wider (numpy.fft '
               f'computes those in double in every release); 2^-23 for float16/float32/complex64 samples (numpy >= 2 transforms them in single '
               f'precision, so double precision cannot be demanded from the statement); power() is compared at the unit roundoff of the stored '
               f'dtype and is not asserted where signal+noise, |.| or |.|^2 leave the range of a bool/fixed-width integer sample dtype '
               f'(the statement names the formula, not the width it is evaluated in)')
    ctx.assume('gv.fs read from the real gv object is "the sampling rate currently configured" (its consistency is property C14); '
               'after clean()+configuration it is also compared with the a-priori R*sps')

    ls = leaves(ctx.tier, ctx.seed)
    ctx.space('xf.leaves', len(ls))
    ctx.space('xf.operations', len(OPS))
    ctx.space('gv.configurations', len(GV_CFGS))
    payloads = ctx.pmap('xf', explore, ls, horizon=120, chunk=48, sample_every=max(1, len(ls) // 4))   # small chunks: the long records come last
    states = set()
    transitions = 0
    maxratio = 0.0
    by_n = {}
    for p in payloads:
        if not p:
            continue
        transitions += p['transitions']
        maxratio = max(maxratio, p['maxratio'])
        for ck, nt in p['states']:
            if ck not in states:
                states.add(ck)
                by_n[p['n']] = by_n.get(p['n'], 0) + 1
                if nt:
                    ctx.nt_tags.add(('xf-state', ck))
    ctx.graph(states=len(states), transitions=transitions)
    ctx.extra['max_error_units'] = round(maxratio, 3)
    ctx.extra['error_allowance_units'] = K_FFT
    ctx.extra['states_by_length'] = {str(k): v for k, v in sorted(by_n.items())}
    ctx.extra['program_depth'] = depth
    print(f'[C02] xf: leaves={len(ls)} distinct states={len(states)} transitions={transitions} '
          f'max error={maxratio:.3f} (allowed {K_FFT:g}) x eps*max(1,log2N)*||x||2 per transform', flush=True)

    wc = []
    for n in sorted(lengths + WGRID_LONG):
        for layout in LAYOUTS:
            for nmode in ('none', 'mix') if n <= EXACT_FULL_MAX else ('none',):
                for a in range(len(GV_CFGS)):
                    for b in range(len(GV_CFGS)):
                        wc.append({'layout': layout, 'n': n, 'nmode': nmode, 'a': a, 'b': b, 'seed': ctx.seed})
    ctx.pmap('wgrid', wgrid, wc, horizon=60, sample_every=max(1, len(wc) // 3))
    print(f'[C02] wall per part: {getattr(ctx, "part_wall", {})}', flush=True)
