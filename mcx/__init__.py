"""mcx - bounded-exhaustive explorer for the opticomlib properties (see /verif/DESIGN.md)."""
