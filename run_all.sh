#!/bin/sh
# run every claimed check once (quick by default) and summarise; usage: ./run_all.sh [quick|thorough] [ids...]
TIER=${1:-quick}; shift 2>/dev/null
IDS=${*:-$(python3 -c "import json;print(' '.join(c['property_id'] for c in json.load(open('/verif/MANIFEST.json'))['checks']))")}
cd /verif
for p in $IDS; do
  s=$(date +%s)
  /venv/bin/python -m mcx check $p --tier $TIER > /var/tmp/scratch/run_$p.log 2>&1; rc=$?
  e=$(date +%s)
  echo "$p exit=$rc wall=$((e-s))s $(grep -E "^\[$p\] tier" /var/tmp/scratch/run_$p.log | sed 's/.*evaluations/evaluations/')"
  grep -E "^VIOLATION|^KNOWN|HARNESS|HISTORY|SCHEMA" /var/tmp/scratch/run_$p.log | head -5
done
