#!/bin/sh
# run every claimed check once (quick by default) and summarise; usage: ./run_all.sh [quick|thorough] [ids...]
TIER=${1:-quick}; shift 2>/dev/null
cd "$(dirname "$(readlink -f "$0")")"
IDS=${*:-$(python3 -c "import json;print(' '.join(c['property_id'] for c in json.load(open('MANIFEST.json'))['checks']))")}
cd "$(dirname "$(readlink -f "$0")")"
mkdir -p "${RUNLOG:-/var/tmp/scratch}"
for p in $IDS; do
  s=$(date +%s)
  /venv/bin/python -m mcx check $p --tier $TIER > ${RUNLOG:-/var/tmp/scratch}/run_$p.log 2>&1; rc=$?
  e=$(date +%s)
  echo "$p exit=$rc wall=$((e-s))s $(grep -E "^\[$p\] tier" ${RUNLOG:-/var/tmp/scratch}/run_$p.log | sed 's/.*evaluations/evaluations/')"
  grep -E "^VIOLATION|^KNOWN|HARNESS|HISTORY|SCHEMA" ${RUNLOG:-/var/tmp/scratch}/run_$p.log | head -5
done
